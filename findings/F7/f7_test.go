package pebble

import (
	"testing"

	"github.com/cockroachdb/pebble/internal/base"
	"github.com/cockroachdb/pebble/vfs"
)

// With a DeletableValueMerger, a MERGE operand whose merge with the SET below it asks for
// deletion makes the key invisible to readers. The compaction iterator drops the merged
// key too, but then re-processes the SET that the merge had consumed (compact.Iter.Next:
// `continue` after needDelete with iterKV still on the consumed entry and skip still
// set): the compaction either writes the stale base value back out (the key reappears
// with the old value: the visible state changes) or panics on its next step.
func TestF7(t *testing.T) {
	opts := &Options{
		FS:                          vfs.NewMem(),
		DisableAutomaticCompactions: true,
		Merger: &Merger{
			Name:  "f7.deletable-sum",
			Merge: base.NewDeletableSumValueMerger,
		},
	}
	d, err := Open("", opts)
	if err != nil {
		t.Fatal(err)
	}
	defer func() {
		if d != nil {
			d.Close()
		}
	}()
	get := func() (string, bool) {
		v, closer, err := d.Get([]byte("a"))
		if err == ErrNotFound {
			return "", false
		}
		if err != nil {
			t.Fatal(err)
		}
		defer closer.Close()
		return string(v), true
	}
	// "1" as the base value, then a merge operand "-1": the sum is 0, which the merger
	// reports as "delete".
	if err := d.Set([]byte("a"), []byte("1"), nil); err != nil {
		t.Fatal(err)
	}
	if err := d.Flush(); err != nil {
		t.Fatal(err)
	}
	if err := d.Merge([]byte("a"), []byte("-1"), nil); err != nil {
		t.Fatal(err)
	}
	if err := d.Flush(); err != nil {
		t.Fatal(err)
	}
	v0, ok0 := get()
	func() {
		defer func() {
			if r := recover(); r != nil {
				t.Fatalf("compaction panicked: %v", r)
			}
		}()
		if err := d.Compact(t.Context(), []byte("a"), []byte("b"), false); err != nil {
			t.Fatalf("compaction failed: %v", err)
		}
	}()
	v1, ok1 := get()
	if ok0 != ok1 || v0 != v1 {
		t.Fatalf("visible state changed by the compaction: before (%q, found=%v), after (%q, found=%v)", v0, ok0, v1, ok1)
	}
}

// Second way into the same defect: a chain of MERGE operands without a base whose sum asks
// for deletion leaves the position at iterPosNext when the loop continues; if the next key
// is a tombstone that cannot be elided (an older version lives in a lower level), it is
// returned with skip=true at iterPosNext and the compaction panics on its next step.
func TestF7MergeChainThenTombstone(t *testing.T) {
	opts := &Options{
		FS:                          vfs.NewMem(),
		DisableAutomaticCompactions: true,
		Merger: &Merger{
			Name:  "f7.deletable-sum",
			Merge: base.NewDeletableSumValueMerger,
		},
	}
	d, err := Open("", opts)
	if err != nil {
		t.Fatal(err)
	}
	defer d.Close()
	must := func(err error) {
		t.Helper()
		if err != nil {
			t.Fatal(err)
		}
	}
	// an old version of b and c at the bottom of the LSM, so that their tombstones above
	// cannot be elided
	must(d.Set([]byte("b"), []byte("1"), nil))
	must(d.Set([]byte("c"), []byte("1"), nil))
	must(d.Flush())
	must(d.Compact(t.Context(), []byte("a"), []byte("z"), false))
	// a: two merge operands that cancel; b, c: point tombstones. One sstable in L0.
	must(d.Merge([]byte("a"), []byte("1"), nil))
	must(d.Merge([]byte("a"), []byte("-1"), nil))
	must(d.Delete([]byte("b"), nil))
	must(d.Delete([]byte("c"), nil))
	must(d.Flush())
	// Move the L0 table down one level at a time; a compaction that rewrites it above
	// the bottom level sees MERGE, MERGE, DEL, DEL with the tombstones not elidable.
	// An overlapping L0 file forces the first compaction to be a rewrite, not a move.
	must(d.Set([]byte("a0"), []byte("1"), nil))
	must(d.Flush())
	func() {
		defer func() {
			if r := recover(); r != nil {
				t.Fatalf("compaction panicked: %v", r)
			}
		}()
		must(d.Compact(t.Context(), []byte("a"), []byte("z"), false))
	}()
	for _, k := range []string{"a", "b", "c"} {
		if _, closer, err := d.Get([]byte(k)); err != ErrNotFound {
			if closer != nil {
				closer.Close()
			}
			t.Fatalf("key %s: want not found, got err=%v", k, err)
		}
	}
}
