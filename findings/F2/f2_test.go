package manifest

import (
	"bytes"
	"fmt"
	"testing"
)

func TestF2(t *testing.T) {
	for _, in := range [][]byte{
		{0x01, 0x80, 0x80, 0x80, 0x80, 0x80, 0x80, 0x80, 0x80, 0x40},       // tagComparator, length 2^62
		{0x01, 0xff, 0xff, 0xff, 0xff, 0xff, 0xff, 0xff, 0xff, 0xff, 0x01}, // length 2^64-1
	} {
		func() {
			defer func() {
				if r := recover(); r != nil {
					t.Errorf("Decode(%x) panicked: %v", in, r)
				}
			}()
			var ve VersionEdit
			err := ve.Decode(bytes.NewReader(in))
			fmt.Printf("F2: Decode(%x) = %v\n", in, err)
			if err == nil {
				t.Errorf("expected an error")
			}
		}()
	}
}
