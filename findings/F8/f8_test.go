package pebble

import (
	"testing"

	"github.com/cockroachdb/pebble/internal/testkeys"
	"github.com/cockroachdb/pebble/vfs"
)

// An iterator opened with OnlyReadGuaranteedDurable must show only what a crash at that
// moment would recover. Its point-key stack leaves the memtables out
// (finishInitializingIter), but Iterator.constructRangeKeyIter adds the memtables' range
// keys regardless of the option: a range key that exists only in a memtable (written
// without sync, never flushed) is shown, and a crash taken at that moment loses it.
func TestF8(t *testing.T) {
	mem := vfs.NewCrashableMem()
	opts := &Options{
		FS:                 mem,
		Comparer:           testkeys.Comparer,
		FormatMajorVersion: FormatNewest,
	}
	d, err := Open("", opts)
	if err != nil {
		t.Fatal(err)
	}
	// A range key written without sync and not flushed.
	if err := d.RangeKeySet([]byte("a"), []byte("z"), []byte("@5"), []byte("rv"), NoSync); err != nil {
		t.Fatal(err)
	}
	count := func(db *DB, o *IterOptions) int {
		it, err := db.NewIter(o)
		if err != nil {
			t.Fatal(err)
		}
		defer it.Close()
		n := 0
		for ok := it.First(); ok; ok = it.Next() {
			if _, hasRange := it.HasPointAndRange(); hasRange {
				n++
			}
		}
		return n
	}
	shown := count(d, &IterOptions{OnlyReadGuaranteedDurable: true, KeyTypes: IterKeyTypeRangesOnly})
	// the crash "at that moment": nothing unsynced survives
	crashFS := mem.CrashClone(vfs.CrashCloneCfg{UnsyncedDataPercent: 0})
	d2, err := Open("", &Options{FS: crashFS, Comparer: testkeys.Comparer, FormatMajorVersion: FormatNewest})
	if err != nil {
		t.Fatal(err)
	}
	recovered := count(d2, &IterOptions{KeyTypes: IterKeyTypeRangesOnly})
	d2.Close()
	d.Close()
	if shown > recovered {
		t.Fatalf("durable-only iterator showed %d range key span(s); a crash at that moment recovers %d", shown, recovered)
	}
}
