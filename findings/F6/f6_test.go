package wal

import (
	"sync"
	"testing"

	"github.com/cockroachdb/crlib/crtime"
	"github.com/prometheus/client_golang/prometheus"
)

// recordQueue.push stores the new entry at slot head%len BEFORE it clears the slots of
// the entries popped since the previous push ([lastTailObservedByProducer, tail)). When
// the queue was exactly full after the previous push and a pop happened in between,
// head%len == lastTailObservedByProducer%len: the clearing loop wipes the entry that was
// just pushed. The record's bytes are lost for a later replay on failover
// (snapshotAndSwitchWriter hands out an empty record) and its sync waiter is never
// released by pop (opts.Done is nil).
func TestF6(t *testing.T) {
	var q recordQueue
	q.init(prometheus.NewHistogram(prometheus.HistogramOpts{}))
	for i := 0; i < initialBufferLen; i++ {
		q.push([]byte("x"), SyncOptions{}, nil, crtime.NowMono(), 0, nil)
	}
	// the queue is exactly full; one entry is popped (its write was synced)
	q.pop(0, nil)
	var wg sync.WaitGroup
	var serr error
	wg.Add(1)
	idx, _, _ := q.push([]byte("important"), SyncOptions{Done: &wg, Err: &serr}, nil, crtime.NowMono(), 0, nil)
	e := q.buffer[int(idx)%len(q.buffer)]
	if string(e.p) != "important" || e.opts.Done != &wg {
		t.Fatalf("entry %d was wiped by push: p=%q Done=%v", idx, e.p, e.opts.Done)
	}
	// what a writer switch would replay
	var got []recordQueueEntry
	q.snapshotAndSwitchWriter(nil, func(first uint32, es []recordQueueEntry) int64 {
		got = append(got, es...)
		return 0
	})
	if string(got[len(got)-1].p) != "important" {
		t.Fatalf("replay on switch hands out %q for the last record", got[len(got)-1].p)
	}
}
