package pebble

// Demonstration of finding F10 (property C31: "any sequence of batch operations encodes to a
// representation that decodes to the same kinds, keys, values and count"). Copy into /repo
// and run:  go test -vet=off -count=1 -run TestF10 .
// Batch.AddInternalKey accepts every point key kind; for SETWITHDEL it encodes a key and a
// value, but batchrepr.Reader.Next does not read a value for that kind, so the value bytes
// are taken for the next record: reading the batch back fails (or yields other records), and
// committing it cannot apply it to the memtable.

import (
	"testing"

	"github.com/cockroachdb/pebble/internal/base"
	"github.com/cockroachdb/pebble/vfs"
)

func TestF10SetWithDeleteRoundTrip(t *testing.T) {
	b := newBatch(nil)
	ik := base.MakeInternalKey([]byte("a"), 0, base.InternalKeyKindSetWithDelete)
	if err := b.AddInternalKey(&ik, []byte("value"), nil); err != nil {
		t.Fatal(err)
	}
	if err := b.Set([]byte("b"), []byte("x"), nil); err != nil {
		t.Fatal(err)
	}
	if b.Count() != 2 {
		t.Fatalf("count %d", b.Count())
	}
	r := b.Reader()
	n := 0
	for {
		kind, key, value, ok, err := r.Next()
		if !ok {
			if err != nil {
				t.Fatalf("record %d: reading the batch back failed: %v", n, err)
			}
			break
		}
		switch n {
		case 0:
			if kind != base.InternalKeyKindSetWithDelete || string(key) != "a" || string(value) != "value" {
				t.Errorf("record 0: got (%s, %q, %q), wrote (SETWITHDEL, \"a\", \"value\")", kind, key, value)
			}
		case 1:
			if kind != base.InternalKeyKindSet || string(key) != "b" || string(value) != "x" {
				t.Errorf("record 1: got (%s, %q, %q), wrote (SET, \"b\", \"x\")", kind, key, value)
			}
		}
		n++
	}
	if n != 2 {
		t.Errorf("read back %d records, wrote 2", n)
	}
}

func TestF10SetWithDeleteCommit(t *testing.T) {
	d, err := Open("", &Options{FS: vfs.NewMem()})
	if err != nil {
		t.Fatal(err)
	}
	defer d.Close()
	b := d.NewBatch()
	ik := base.MakeInternalKey([]byte("a"), 0, base.InternalKeyKindSetWithDelete)
	if err := b.AddInternalKey(&ik, []byte("value"), nil); err != nil {
		t.Fatal(err)
	}
	if err := b.Set([]byte("b"), []byte("x"), nil); err != nil {
		t.Fatal(err)
	}
	if err := b.Commit(Sync); err != nil {
		t.Fatalf("commit: %v", err)
	}
	for k, want := range map[string]string{"a": "value", "b": "x"} {
		v, closer, err := d.Get([]byte(k))
		if err != nil {
			t.Errorf("Get(%s): %v", k, err)
			continue
		}
		if string(v) != want {
			t.Errorf("Get(%s) = %q, want %q", k, v, want)
		}
		closer.Close()
	}
}
