package record

import (
	"bytes"
	"fmt"
	"io"
	"sync"
	"testing"
)

type f5Buf struct{ bytes.Buffer }

func (s *f5Buf) Sync() error  { return nil }
func (s *f5Buf) Close() error { return nil }

// A single bit flip in the log-number field of a synced chunk turns it into what
// Reader.nextChunk accepts as the EOF trailer (log number + 1), without looking
// at the checksum or the length: the reader reports a clean end of log although
// intact, synced records follow.
func TestF5(t *testing.T) {
	f := &f5Buf{}
	w := NewLogWriter(f, 2 /* even log number */, LogWriterConfig{WriteWALSyncOffsets: func() bool { return true }})
	for i := 0; i < 3; i++ {
		var wg sync.WaitGroup
		var serr error
		wg.Add(1)
		if _, err := w.SyncRecord(bytes.Repeat([]byte{byte('a' + i)}, 100), &wg, &serr); err != nil {
			t.Fatal(err)
		}
		wg.Wait()
	}
	w.Close()
	img := append([]byte(nil), f.Bytes()...)
	// second record's chunk header starts at 19+100; its log number is at +7
	hdr := walSyncHeaderSize + 100
	img[hdr+7] ^= 1
	r := NewReader(bytes.NewReader(img), 2)
	n := 0
	for {
		rr, err := r.Next()
		if err != nil {
			fmt.Printf("F5: after %d records the reader returned: %v (clean EOF: %v)\n", n, err, err == io.EOF)
			if err == io.EOF && n < 3 {
				t.Errorf("corruption inside synced data reported as a clean end of log after %d of 3 records", n)
			}
			return
		}
		if _, err := io.ReadAll(rr); err != nil {
			fmt.Printf("F5: read error %v\n", err)
			return
		}
		n++
	}
}
