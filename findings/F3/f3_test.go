package record

import (
	"bytes"
	"fmt"
	"sync"
	"testing"
)

type syncBuf struct{ bytes.Buffer }

func (s *syncBuf) Sync() error  { return nil }
func (s *syncBuf) Close() error { return nil }

func TestF3(t *testing.T) {
	f := &syncBuf{}
	w := NewLogWriter(f, 1, LogWriterConfig{WriteWALSyncOffsets: func() bool { return true }})
	for i := 0; i < 10; i++ {
		p := bytes.Repeat([]byte{byte(i + 1)}, 100000)
		var wg sync.WaitGroup
		var serr error
		wg.Add(1)
		if _, err := w.SyncRecord(p, &wg, &serr); err != nil {
			t.Fatal(err)
		}
		wg.Wait()
		if serr != nil {
			t.Fatal(serr)
		}
	}
	// wait for flusher: closing syncs everything
	so := w.syncedOffset.Load()
	w.Close()
	fmt.Println("F3: file size", f.Len(), "syncedOffset before close", so, "after close", w.syncedOffset.Load())
}
