package pebble

// Demonstration of finding F4 (property C31): Batch.Apply of a representation that
// SetRepr accepted panics instead of returning an error when a record carries one
// of the ingest/excise kinds. Place this file in the root package of pebble and run
//   go test -run TestVerifFindingF4 .
// Before the fix it fails (panic: pebble: invalid key kind for batch); with the fix
// Apply returns ErrInvalidBatch.

import (
	"testing"

	"github.com/cockroachdb/errors"
)

func TestVerifFindingF4(t *testing.T) {
	for _, kind := range []byte{byte(InternalKeyKindIngestSST), byte(InternalKeyKindExcise), byte(InternalKeyKindIngestSSTWithBlobs)} {
		// header: 8 bytes sequence number, count = 1; one record: kind, varint key length 1, key "a"
		repr := []byte{0, 0, 0, 0, 0, 0, 0, 0, 1, 0, 0, 0, kind, 1, 'a'}
		src := &Batch{}
		if err := src.SetRepr(repr); err != nil {
			t.Fatalf("SetRepr rejected the representation: %v", err)
		}
		dst := newIndexedBatch(nil, DefaultComparer)
		var err error
		func() {
			defer func() {
				if r := recover(); r != nil {
					t.Errorf("kind %d: Apply panicked: %v", kind, r)
				}
			}()
			err = dst.Apply(src, nil)
		}()
		if t.Failed() {
			continue
		}
		if !errors.Is(err, ErrInvalidBatch) {
			t.Errorf("kind %d: Apply returned %v, want ErrInvalidBatch", kind, err)
		}
	}
}
