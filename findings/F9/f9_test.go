package manifest

// Demonstration of finding F9 (property C16, clause "a pick never includes a file that is
// already compacting"). Copy into /repo/internal/manifest and run
//   go test -vet=off -count=1 -run TestF9 ./internal/manifest/
// On the unrepaired code PickBaseCompaction returns a pick that contains the two files of a
// running intra-L0 compaction; on the repaired code it returns only the files below them.

import (
	"testing"

	"github.com/cockroachdb/pebble/internal/base"
)

func TestF9BasePickStacksIntraL0CompactingFiles(t *testing.T) {
	// Four files over the same key range, oldest first: one per sublevel. The two newest
	// are the inputs of an intra-L0 compaction that is still running (an intra-L0 pick
	// starts at the top of the stack and can stop stacking downwards for size reasons).
	var files []*TableMetadata
	for i := 0; i < 4; i++ {
		seq := base.SeqNum(10 * (i + 1))
		m := (&TableMetadata{}).ExtendPointKeyBounds(
			base.DefaultComparer.Compare,
			base.MakeInternalKey([]byte("a"), seq, base.InternalKeyKindSet),
			base.MakeInternalKey([]byte("b"), seq, base.InternalKeyKindSet),
		)
		m.SeqNums.Low, m.SeqNums.High, m.LargestSeqNumAbsolute = seq, seq, seq
		m.TableNum = base.TableNum(i + 1)
		m.Size = 256
		m.InitPhysicalBacking()
		if i >= 2 {
			m.CompactionState = CompactionStateCompacting
			m.IsIntraL0Compacting = true
		}
		files = append(files, m)
	}
	lm := MakeLevelMetadata(base.DefaultComparer.Compare, 0, files)
	s, err := newL0Sublevels(&lm, base.DefaultComparer.Compare, base.DefaultFormatter, 64)
	if err != nil {
		t.Fatal(err)
	}
	s.InitCompactingFileInfo(nil)
	for i, f := range files {
		if got := s.state(f).subLevel; got != i {
			t.Fatalf("file %s: sublevel %d, expected %d", f.TableNum, got, i)
		}
	}
	c := s.PickBaseCompaction(base.DefaultLogger, 1, LevelSlice{}, 6, nil)
	if c == nil {
		t.Fatalf("no base compaction picked although two non-compacting files are stacked")
	}
	for _, f := range c.Files {
		if f.IsCompacting() {
			t.Errorf("pick includes %s, which is already compacting (intra-L0=%t)", f.TableNum, f.IsIntraL0Compacting)
		}
	}
	if len(c.Files) < 2 {
		t.Errorf("pick has %d files, expected the two files that are not compacting", len(c.Files))
	}
}
