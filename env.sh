# source this: offline Go environment for the engine and replays
export PATH=/root/go/pkg/mod/golang.org/toolchain@v0.0.1-go1.25.3.linux-amd64/bin:$PATH
export GOTOOLCHAIN=local GOFLAGS=-mod=mod GOPROXY=off
