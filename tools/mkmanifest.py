#!/usr/bin/env python3
"""Regenerates /verif/MANIFEST.json from tools/claims.json (properties under contract)
and tools/na_reasons.json (everything else)."""
import json, os
root = os.path.dirname(os.path.dirname(os.path.abspath(__file__)))
claims = json.load(open(os.path.join(root, 'tools', 'claims.json')))
na = json.load(open(os.path.join(root, 'tools', 'na_reasons.json')))
props = [json.loads(l)['id'] for l in open(os.path.join(root, 'properties.jsonl'))]
import subprocess
commits = subprocess.run(['git', '-C', '/repo', 'log', '--format=%H', '--grep', '^verif hook'], capture_output=True, text=True).stdout.split()
hooks = {"source_commits": list(reversed(commits))}
checks = []
for pid in props:
    if pid not in claims:
        continue
    c = claims[pid]
    checks.append({
        "property_id": pid,
        "quick_cmd": "./check %s quick" % pid,
        "thorough_cmd": "./check %s thorough" % pid,
        "evidence_file": "/verif/evidence/%s.json" % pid,
        "replay_cmd_template": "./check replay {path}",
        "engine": "pvc",
        "level_claimed": {"category": "proof", "text": c["level_text"], "design_ref": c.get("design_ref", "DESIGN.md section 3, " + pid)},
        "level_note": c["level_note"],
        "technique": c.get("technique", "contract-based deductive verification: weakest-precondition style VCs generated from the typed Go AST of the real functions, discharged by z3/cvc5"),
    })
not_app = []
for pid in props:
    if pid in claims:
        continue
    if pid not in na:
        raise SystemExit("property %s neither claimed nor listed as not applicable" % pid)
    not_app.append({"property_id": pid, "reason": na[pid]})
m = {
    "version": 1,
    "setup_cmd": "cd /verif && . ./env.sh && cd engine && cp -f /repo/go.sum go.sum && go build -o ../bin/pvc .",
    "hooks": {
        "guard": "verif",
        "enable": "go build tag: -tags verif (comment-only contract files zz_verif_contracts.go; the checker loads packages with this tag)",
        "baseline_off_cmd": "for m in $(cat /w/out/gomods.txt); do MF=$(cd /repo/$m && . /w/out/goenv.sh && gomodflag); (cd /repo/$m && go test $MF -json -vet=off -count=1 -timeout 25m ./...); done",
        "source_commits": hooks["source_commits"],
        "add_only": True,
    },
    "engines": [{
        "name": "pvc",
        "path": "/verif/engine",
        "serves_properties": [c["property_id"] for c in checks],
        "kind_free_text": "contract checker for a subset of Go: loads /repo's working tree with go/packages (-tags verif), reads contracts from comment-only files zz_verif_contracts.go, symbolically executes the real function bodies (go/ast+go/types, machine integers as bit-vectors, typed flat memory), emits one SMT-LIB query per obligation and races z3 4.8.12 / z3 5.1.0 / cvc5 1.0; own quantifier instantiation; replay of counterexamples through go test -overlay",
    }],
    "checks": checks,
    "notes": "See DESIGN.md. Each claimed property is claimed for a stated kernel of carrier functions only (level_note and evidence.not_decided say what stays undecided). known_findings.txt lists genuine defects found (fixed: lines suppress nothing).",
    "not_applicable": not_app,
}
json.dump(m, open(os.path.join(root, 'MANIFEST.json'), 'w'), indent=1)
print("checks:", len(checks), "not_applicable:", len(not_app))
