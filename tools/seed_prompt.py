#!/usr/bin/env python3
"""prints the prompt for a seeding sub-agent: property text + worktree only (nothing from /verif)."""
import json, sys
pid, wt = sys.argv[1], sys.argv[2]
hint = sys.argv[3] if len(sys.argv) > 3 else ""
for l in open('/verif/properties.jsonl'):
    p = json.loads(l)
    if p['id'] == pid:
        break
prop = json.dumps({k: p[k] for k in p if k not in ('added_in_round', 'source')}, indent=1)
print(f"""You are helping to evaluate a verification effort on the Go storage engine cockroachdb/pebble. Your job is to act as a careful "bug seeder".

You have your own scratch git worktree of the repository at {wt} (work ONLY inside that directory; never touch /repo or /verif, and do not read anything under /verif). The sandbox has no network. For every shell command use this Go environment first:

  export PATH=/root/go/pkg/mod/golang.org/toolchain@v0.0.1-go1.25.3.linux-amd64/bin:$PATH GOTOOLCHAIN=local GOFLAGS=-mod=mod GOPROXY=off

Here is a semantic property of pebble that is supposed to hold (JSON):

{prop}

Task: produce ONE small, realistic change to pebble's non-test source code (the kind of slip a maintainer could make in a refactor or an optimisation: a wrong comparison, a dropped or reordered step, an off-by-one, a mishandled corner case, two sites that each look fine alone) that BREAKS this property, while
  (a) the repository still compiles (`go build ./...`),
  (b) the existing tests of every package you touched still pass (`go test -vet=off -count=1 ./<pkg>/` for the touched packages; if you touch the root package run at least the tests most related to the change, e.g. with -run, and say which; the root package's full test run takes several minutes, run it once at the end if you can),
  (c) the breakage needs something specific to manifest — a particular interleaving, a crash or I/O fault at a particular point, a multi-step sequence of operations, an unusual input, or two cooperating sites — NOT something ordinary use would expose at once.
{hint}
Also write a demonstration: a Go test file named zz_seeded_demo_test.go (package-internal test of the package where it is easiest to show; test function names must start with TestSeeded) that FAILS with your change and PASSES without it. It may use in-memory or fault-injecting file systems from the repository (vfs.NewMem, vfs.NewCrashableMem, errorfs), call unexported functions, etc. If the breakage is an ordering that only a crash at a precise point reveals, demonstrate it with a crashable/fault-injecting filesystem or a recording wrapper.

Deliverables, inside {wt}/SEEDED/ :
  - patch.diff : `git diff HEAD -- . ':!SEEDED'` of your source change ONLY (not the demo test), applicable with `git apply` to a clean checkout;
  - zz_seeded_demo_test.go : the demonstration test (copy; say in notes.md which package directory it belongs in);
  - notes.md : what the change is, which property clause it breaks, what it needs in order to manifest, the exact commands you ran and their results (demo with / without the change, package tests with the change).
Leave the worktree with your change reverted (`git checkout -- .`) and the demo test file removed from the package directory when you finish (the copies in SEEDED/ stay). Verify yourself that: demo passes without the patch, fails with it, package tests pass with it. If your first idea is caught by the existing tests, try another one. Keep the change small (a few lines). Reply with a short summary: the files changed, the package directory of the demo, and a one-paragraph description.""")
