#!/usr/bin/env python3
"""Wraps //@ directive lines longer than 100 columns into '//@   | ' continuation lines."""
import sys, re
LIMIT = 98
for path in sys.argv[1:]:
    out = []
    for line in open(path).read().split('\n'):
        if len(line) <= LIMIT or not line.startswith('//@') or line.startswith('//@ |'):
            out.append(line); continue
        if re.match(r'^//@\s+\|', line):
            # continuation or ghost code: wrap continuation only when it is not code
            pass
        words = line.split(' ')
        cur = ''
        first = True
        for w in words:
            cand = (cur + ' ' + w) if cur else w
            if len(cand) > LIMIT and cur.strip() not in ('//@', '//@   |'):
                out.append(cur)
                cur = '//@   | ' + w
                first = False
            else:
                cur = cand
        out.append(cur)
    open(path, 'w').write('\n'.join(out))
