#!/bin/bash
# usage: seedcheck.sh <seed-id> <worktree> <demo-pkg-dir> <property> [more properties...]
# Confirms a seeded change (demo fails with it / passes without it, in the scratch worktree),
# stores it under /verif/seeded/<seed-id>/ and runs the registered checks against it in /repo.
set -u
id=$1; wt=$2; pkg=$3; shift 3
. /verif/env.sh
dst=/verif/seeded/$id
mkdir -p $dst
cp $wt/SEEDED/patch.diff $dst/patch.diff
cp $wt/SEEDED/zz_seeded_demo_test.go $dst/zz_seeded_demo_test.go
cp $wt/SEEDED/notes.md $dst/notes.md 2>/dev/null
cd $wt
git checkout -q -- . 2>/dev/null
cp SEEDED/zz_seeded_demo_test.go $pkg/zz_seeded_demo_test.go
echo "== demo WITHOUT the change"
go test -vet=off -count=1 -run 'Seeded|ZZ|zz' ./$pkg/ > $dst/demo_without.log 2>&1; w0=$?
tail -2 $dst/demo_without.log
git apply SEEDED/patch.diff || { echo "patch does not apply"; exit 2; }
echo "== build WITH the change"; go build ./... > $dst/build_with.log 2>&1; b=$?
echo "== demo WITH the change"
go test -vet=off -count=1 -run 'Seeded|ZZ|zz' ./$pkg/ > $dst/demo_with.log 2>&1; w1=$?
tail -2 $dst/demo_with.log
echo "== existing tests of $pkg WITH the change (demo removed)"
rm -f $pkg/zz_seeded_demo_test.go
if [ "$pkg" = "." ]; then echo "(root package: existing tests were run by the seeding agent, see notes.md)" > $dst/pkgtests_with.log; t=0; else go test -vet=off -count=1 ./$pkg/ > $dst/pkgtests_with.log 2>&1; t=$?; fi
tail -1 $dst/pkgtests_with.log
git checkout -q -- .
echo "demo_without_exit=$w0 demo_with_exit=$w1 build_exit=$b pkgtests_exit=$t"
# The checks run against a private checkout of /repo's HEAD (with the contract files) to which
# the change is applied: /repo itself is never touched (PVC_ALT_REPO, development only).
alt=/tmp/seedalt/$id
rm -rf $alt; git -C /repo worktree prune; mkdir -p /tmp/seedalt
git -C /repo worktree add -q --detach $alt HEAD || { echo "cannot create $alt"; exit 2; }
(cd $alt && git apply $dst/patch.diff) || { echo "patch does not apply to HEAD"; git -C /repo worktree remove --force $alt; exit 2; }
for p in "$@"; do
  echo "== ./check $p quick (with the change applied to a copy of /repo)"
  (cd /verif && ulimit -v 14000000 && PVC_ALT_REPO=$alt ./check $p quick > $dst/check_$p.log 2>&1; echo "exit=$?" >> $dst/check_$p.log)
  grep -E "VIOLATION|failed obligation|exit=|KNOWN" $dst/check_$p.log | cut -c1-260 | head -8
done
git -C /repo worktree remove --force $alt
echo "{\"id\": \"$id\", \"demo_without_exit\": $w0, \"demo_with_exit\": $w1, \"build_exit\": $b, \"pkgtests_exit\": $t}" > $dst/result.json
