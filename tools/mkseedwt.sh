#!/bin/bash
# usage: mkseedwt.sh <name>  -> creates /tmp/seedwt/<name>, a scratch worktree of /repo HEAD with the
# contract files removed (so a seeding agent sees nothing of /verif's contracts), plus SEEDED/.
set -e
name=$1
mkdir -p /tmp/seedwt
wt=/tmp/seedwt/$name
git -C /repo worktree add --detach -f $wt HEAD >/dev/null 2>&1
cd $wt
find . -name zz_verif_contracts.go -delete
git -c user.email=x@x -c user.name=x commit -qam "scratch: drop comment-only files" 
mkdir -p SEEDED
echo $wt
