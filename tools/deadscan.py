import re,glob,json,subprocess
obl=set()
for f in glob.glob('/verif/ledger/C*.json'):
    d=json.load(open(f)); obl|=set(d.get('obligations') or [])
files=subprocess.check_output("find /repo -name zz_verif_contracts.go",shell=True,text=True).split()
dead=[]
for f in files:
    pkg=None
    src=open(f).read().split('\n')
    for l in src:
        m=re.match(r'package (\w+)',l)
        if m: pkg=m.group(1)
    cur=None; trusted=False
    # join continuation lines
    lines=[]
    for l in src:
        if l.startswith('//@   |'): lines[-1]+=' '+l[7:].strip()
        elif l.startswith('//@'): lines.append(l)
    for l in lines:
        m=re.match(r'//@ (func|funclit) (.*)$',l)
        if m:
            name=m.group(2).strip()
            kind=m.group(1)
            # func (*T) M -> (*T).M ; funclit (*T).M#k stays
            if kind=='func':
                mm=re.match(r'\((\*?\w+)\) (\w+)',name)
                if mm: name='(%s).%s'%(mm.group(1),mm.group(2))
            cur=name; trusted=False; continue
        if cur is None: continue
        t=l[3:].strip()
        if t=='trusted': trusted=True
        if trusted: continue
        full='%s.%s'%(pkg,cur)
        encl=full.split('#')[0]
        def has(sub):
            return any((o.startswith(full+'/') or o.startswith(encl+'/') ) and sub in o for o in obl)
        m=re.match(r'before call (.*?) : assert',t)
        if m:
            ct=m.group(1).strip()
            if not has('order@'+ct): dead.append((f,cur,t[:90]))
            continue
        if t.startswith('before return'):
            if not has('return.order'): dead.append((f,cur,t[:90]))
            continue
        if t.startswith('ensures'):
            if not has('/ensures'): dead.append((f,cur,t[:90]))
            continue
        m=re.match(r'loop (\d+) invariant',t)
        if m:
            if not has('/loop%s.'%m.group(1)): dead.append((f,cur,t[:90]))
for d in dead: print(d)
print(len(dead),'suspect directives;',len(obl),'obligation names')
