#!/usr/bin/env python3
"""usage: mkmeta.py <seed-id> <property> <demo_pkg> <detected_initially:true|false> <breaks> <needs> <detected_by>"""
import json, sys
sid, prop, pkg, init, breaks, needs, by = sys.argv[1:8]
d = '/verif/seeded/' + sid
r = json.load(open(d + '/result.json'))
m = {"id": sid, "property": prop, "breaks": breaks, "needs": needs, "demo_pkg": pkg,
     "detected_initially": init == 'true', "detected_by": by,
     "ran": {"demo_without_change_exit": r["demo_without_exit"], "demo_with_change_exit": r["demo_with_exit"],
             "build_with_change_exit": r["build_exit"], "existing_pkg_tests_with_change_exit": r["pkgtests_exit"],
             "commands": "tools/seedcheck.sh (go build ./...; go test -run TestSeeded with and without the patch in a scratch worktree; go test of the package with the patch; ./check <property> quick with the patch applied to a private checkout of /repo HEAD (PVC_ALT_REPO), removed afterwards)"}}
json.dump(m, open(d + '/meta.json', 'w'), indent=1)
