#!/bin/bash
# Re-runs every registered quick check on /repo's (clean) working tree so that the committed
# evidence files describe the unchanged tree (seed checks overwrite them with failing runs).
cd /verif
if [ -n "$(git -C /repo status --short | grep -v '^??')" ]; then echo "/repo is not clean"; exit 2; fi
rc=0
for p in $(jq -r '.checks[].property_id' MANIFEST.json); do
  ./check $p quick 2>&1 | grep -v KNOWN | tail -1
  [ "$(jq -r '.violations' evidence/$p.json)" = "0" ] || { echo "EVIDENCE NOT CLEAN: $p"; rc=1; }
  [ "$(jq -r '.coverage.obligations' evidence/$p.json)" = "$(jq -r '.coverage.discharged' evidence/$p.json)" ] || { echo "EVIDENCE MISMATCH: $p"; rc=1; }
done
exit $rc
