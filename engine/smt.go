package main

import (
	"bytes"
	"context"
	"fmt"
	"os"
	"os/exec"
	"path/filepath"
	"regexp"
	"runtime"
	"strings"
	"sync"
	"time"
)

type solverSpec struct {
	name string
	bin  string
	args func(timeoutMs int, seed int) []string
}

var solvers = []solverSpec{
	{"z3-5.1.0", "z3-new", func(t int, seed int) []string {
		return []string{fmt.Sprintf("-T:%d", (t+999)/1000), fmt.Sprintf("smt.random_seed=%d", seed), "-smt2"}
	}},
	{"z3-4.8.12", "z3", func(t int, seed int) []string {
		return []string{fmt.Sprintf("-T:%d", (t+999)/1000), fmt.Sprintf("smt.random_seed=%d", seed), "-smt2"}
	}},
	{"cvc5-1.0", "cvc5", func(t int, seed int) []string {
		return []string{fmt.Sprintf("--tlimit=%d", t), fmt.Sprintf("--seed=%d", seed), "--lang=smt2"}
	}},
}

type solveResult struct {
	status string // unsat sat unknown
	solver string
	out    string
	ms     int64
}

// procSem bounds the number of solver processes that run at the same time to the
// number of cores, so that a query's wall time stays close to its CPU time (the
// per-query timeout is a statement about the query, not about machine load).
var procSem = make(chan struct{}, maxSolverProcs())

func maxSolverProcs() int {
	n := runtime.NumCPU() - 1
	if n < 3 {
		n = 3
	}
	return n
}

func runSolver(ctx context.Context, sp solverSpec, file string, timeoutMs int, seed int) solveResult {
	select {
	case procSem <- struct{}{}:
		defer func() { <-procSem }()
	case <-ctx.Done():
		return solveResult{status: "unknown", solver: sp.name, out: "cancelled before start"}
	}
	start := time.Now()
	args := append(sp.args(timeoutMs, seed), file)
	cctx, cancel := context.WithTimeout(ctx, time.Duration(timeoutMs+2000)*time.Millisecond)
	defer cancel()
	cmd := exec.CommandContext(cctx, sp.bin, args...)
	var out bytes.Buffer
	cmd.Stdout = &out
	cmd.Stderr = &out
	cmd.Run()
	first := strings.TrimSpace(strings.SplitN(strings.TrimSpace(out.String()), "\n", 2)[0])
	st := "unknown"
	switch first {
	case "unsat":
		st = "unsat"
	case "sat":
		st = "sat"
	}
	return solveResult{status: st, solver: sp.name, out: out.String(), ms: time.Since(start).Milliseconds()}
}

// race runs all solvers on a query; the first definite answer wins.
func race(query string, dir string, id int, timeoutMs int, seed int, all bool) (solveResult, []solveResult) {
	return raceCtx(context.Background(), query, dir, id, timeoutMs, seed, all)
}

func raceCtx(parent context.Context, query string, dir string, id int, timeoutMs int, seed int, all bool) (solveResult, []solveResult) {
	file := filepath.Join(dir, fmt.Sprintf("q%d.smt2", id))
	os.WriteFile(file, []byte(query), 0o644)
	ctx, cancel := context.WithCancel(parent)
	defer cancel()
	ch := make(chan solveResult, len(solvers))
	for _, sp := range solvers {
		go func(sp solverSpec) { ch <- runSolver(ctx, sp, file, timeoutMs, seed) }(sp)
	}
	var got []solveResult
	var winner *solveResult
	for range solvers {
		r := <-ch
		got = append(got, r)
		if winner == nil && r.status != "unknown" {
			w := r
			winner = &w
			if !all {
				cancel()
				break
			}
		}
	}
	if winner == nil {
		var outs []string
		var ms int64
		for _, g := range got {
			outs = append(outs, g.solver+": "+strings.TrimSpace(g.out))
			if g.ms > ms {
				ms = g.ms
			}
		}
		return solveResult{status: "unknown", solver: "all", out: strings.Join(outs, "\n"), ms: ms}, got
	}
	return *winner, got
}

var valRe = regexp.MustCompile(`\(\s*([A-Za-z_$][A-Za-z0-9_.$!]*)\s+(#x[0-9a-fA-F]+|#b[01]+|true|false|\(_ bv\d+ \d+\))\s*\)`)

// getModel re-runs a solver for the values of the query's constants.
func getModel(query string, syms []string, dir string, id int, solverName string) (map[string]string, string) {
	if len(syms) == 0 {
		return nil, ""
	}
	var sp solverSpec
	for _, s := range solvers {
		if s.name == solverName {
			sp = s
		}
	}
	if sp.bin == "" {
		sp = solvers[0]
	}
	q := query
	if sp.bin == "cvc5" {
		q = "(set-option :produce-models true)\n" + q
	}
	q += "(get-value (" + strings.Join(syms, " ") + "))\n"
	file := filepath.Join(dir, fmt.Sprintf("m%d.smt2", id))
	os.WriteFile(file, []byte(q), 0o644)
	r := runSolver(context.Background(), sp, file, 20000, 0)
	m := map[string]string{}
	for _, mm := range valRe.FindAllStringSubmatch(r.out, -1) {
		m[mm[1]] = mm[2]
	}
	return m, r.out
}

// Discharge decides every obligation of the given functions.
func Discharge(results []*FuncResult, timeoutMs int, seed int, all bool, keepQueries bool) (solverSeconds float64) {
	dir, err := os.MkdirTemp("", "pvc-smt-")
	if err != nil {
		panic(err)
	}
	defer os.RemoveAll(dir)
	type job struct {
		o   *Obligation
		ctx *Ctx
		id  int
	}
	var jobs []job
	id := 0
	for _, r := range results {
		for _, o := range r.Obls {
			id++
			jobs = append(jobs, job{o, r.Ctx, id})
		}
	}
	var mu sync.Mutex
	var wg sync.WaitGroup
	sem := make(chan struct{}, 8)
	seenQ := map[string]*Obligation{}
	dups := map[*Obligation][]*Obligation{}
	for _, j := range jobs {
		o := j.o
		// syntactic discharge
		dead := false
		for _, h := range o.Hyps {
			if h.IsC && h.C == 0 {
				dead = true
			}
		}
		if !o.ExpectSat && (dead || (o.Goal.IsC && o.Goal.C != 0)) {
			o.Result, o.Solver = "proved", "syntactic"
			continue
		}
		if o.ExpectSat && dead {
			o.Result, o.Solver = "unreachable", "syntactic"
			continue
		}
		// identical queries (up to the numbering of fresh symbols) are solved once: path
		// splitting re-executes common prefixes
		var q string
		if o.ExpectSat {
			q = j.ctx.QueryOpt(o.Hyps, o.Goal, false, QRaw)
		} else {
			q = j.ctx.QueryOpt(o.Hyps, o.Goal, true, QInst)
		}
		key := canonQuery(q)
		if first, ok := seenQ[key]; ok {
			dups[first] = append(dups[first], o)
			continue
		}
		seenQ[key] = o
		wg.Add(1)
		sem <- struct{}{}
		go func(j job, q string) {
			defer wg.Done()
			defer func() { <-sem }()
			o := j.o
			if keepQueries {
				o.Query = q
			}
			t := timeoutMs
			if o.ExpectSat {
				t = 5000
			}
			var r solveResult
			done := false
			lq := ""
			if !o.ExpectSat && len(q) > 60000 {
				// stage 0: the goal's cone of influence only (hypotheses sharing no symbol
				// with it, transitively, are dropped: a sound weakening). Large functions
				// produce path conditions most of which a given goal never touches.
				if sl := j.ctx.Slice(o.Hyps, o.Goal); len(sl)*2 <= len(o.Hyps) {
					sq := j.ctx.QueryOpt(sl, o.Goal, true, QLite)
					if len(sq)*2 <= len(q) {
						if !strings.Contains(sq, "(forall ") && !strings.Contains(sq, "(exists ") {
							sq = strings.Replace(sq, "(set-logic ALL)", "(set-logic QF_AUFBV)", 1)
						}
						sr, _ := race(sq, dir, j.id+4000000, 5000, seed, false)
						mu.Lock()
						solverSeconds += float64(sr.ms) / 1000
						mu.Unlock()
						if sr.status == "unsat" {
							r, done = sr, true
							r.solver += "+slice"
						}
					}
				}
			}
			if !done && !o.ExpectSat && (strings.Contains(q, "(forall ") || strings.Contains(q, "(exists ")) {
				// stage 1: ground instances only, every remaining quantifier dropped (weaker, sound)
				lq = j.ctx.QueryOpt(o.Hyps, o.Goal, true, QLite)
				if !strings.Contains(lq, "(forall ") && !strings.Contains(lq, "(exists ") {
					lq = strings.Replace(lq, "(set-logic ALL)", "(set-logic QF_AUFBV)", 1)
				}
				lr, _ := race(lq, dir, j.id+1000000, 5000, seed, false)
				mu.Lock()
				solverSeconds += float64(lr.ms) / 1000
				mu.Unlock()
				if lr.status == "unsat" {
					r, done = lr, true
					r.solver += "+inst"
				} else if lr.status == "sat" {
					// a model of the weakened query: only a candidate counterexample, to be
					// confirmed (or not) by replaying it on the real code
					o.CandQuery, o.CandSolver = lq, lr.solver
				}
			}
			if !done && !o.ExpectSat && o.CandQuery == "" {
				// stage 1b: abstract arithmetic (division/remainder by a symbolic divisor as an
				// uninterpreted function with bound facts): a sound weakening, "unsat" is a proof
				base := lq
				if base == "" {
					base = q
				}
				if aq, ok := abstractArith(base); ok {
					ar, _ := race(aq, dir, j.id+3000000, min(t, 15000), seed, false)
					mu.Lock()
					solverSeconds += float64(ar.ms) / 1000
					mu.Unlock()
					if ar.status == "unsat" {
						r, done = ar, true
						r.solver += "+absarith"
					}
				}
			}
			if !done && lq != "" && o.CandQuery == "" && t > 5000 {
				// stage 2: the full query and the weakened one side by side; "unsat" from
				// either is a proof, "sat" only counts from the full query
				cctx, ccancel := context.WithCancel(context.Background())
				type tagged struct {
					r    solveResult
					lite bool
				}
				ch := make(chan tagged, 2)
				go func() {
					fr, _ := raceCtx(cctx, q, dir, j.id, t, seed, false)
					ch <- tagged{fr, false}
				}()
				go func() {
					lr, _ := raceCtx(cctx, lq, dir, j.id+2000000, t, seed, false)
					ch <- tagged{lr, true}
				}()
				var full *solveResult
				for k := 0; k < 2; k++ {
					g := <-ch
					if g.lite {
						if g.r.status == "unsat" {
							r, done = g.r, true
							r.solver += "+inst"
							break
						}
						if g.r.status == "sat" {
							o.CandQuery, o.CandSolver = lq, g.r.solver
						}
					} else {
						fr := g.r
						full = &fr
						if fr.status != "unknown" {
							r, done = fr, true
							break
						}
					}
				}
				ccancel()
				if !done && full != nil {
					r, done = *full, true
				}
			}
			if !done {
				r, _ = race(q, dir, j.id, t, seed, all && !o.ExpectSat)
			}
			mu.Lock()
			solverSeconds += float64(r.ms) / 1000
			mu.Unlock()
			o.Solver, o.Ms, o.Raw = r.solver, r.ms, r.out
			if o.ExpectSat {
				switch r.status {
				case "sat":
					o.Result = "reachable"
				case "unsat":
					o.Result = "unreachable"
				default:
					o.Result = "cover-unknown"
				}
				return
			}
			switch r.status {
			case "unsat":
				o.Result = "proved"
			case "sat":
				o.Result = "refuted"
				o.Query = q
				o.Model, _ = getModel(q, j.ctx.ModelSymbols(q), dir, j.id, r.solver)
			default:
				o.Result = "unknown"
				o.Query = q
			}
		}(j, q)
	}
	wg.Wait()
	for first, list := range dups {
		for _, o := range list {
			o.Result, o.Solver, o.Ms, o.Raw, o.Model, o.Query = first.Result, first.Solver+"(dup)", 0, first.Raw, first.Model, first.Query
		}
	}
	return solverSeconds
}

var freshNumRe = regexp.MustCompile(`[!?]\d+|\$d\d+`)

// canonQuery renumbers fresh symbols in order of first occurrence.
func canonQuery(q string) string {
	m := map[string]string{}
	return freshNumRe.ReplaceAllStringFunc(q, func(s string) string {
		if r, ok := m[s]; ok {
			return r
		}
		r := fmt.Sprintf("%c#%d", s[0], len(m))
		m[s] = r
		return r
	})
}
