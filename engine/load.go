package main

import (
	"bytes"
	"fmt"
	"go/ast"
	"go/parser"
	"go/printer"
	"go/token"
	"go/types"
	"os"
	"path/filepath"
	"regexp"
	"sort"
	"strconv"
	"strings"

	"golang.org/x/tools/go/packages"
)

// repoRoot is /repo for every registered check. PVC_ALT_REPO (development only: judging a
// seeded change on a private copy while other runs use /repo) redirects the engine to
// another checkout; evidence and replays of such a run go under <copy>/.pvc-out and never
// into /verif.
var repoRoot = "/repo"
var altOut = ""

func init() {
	if e := os.Getenv("PVC_ALT_REPO"); e != "" {
		repoRoot = filepath.Clean(e)
		altOut = filepath.Join(repoRoot, ".pvc-out")
	}
}

const repoModule = "github.com/cockroachdb/pebble"

type CExpr struct {
	Dir  *Directive
	Expr ast.Expr
	Text string
}

type Contract struct {
	Block   *Block
	CF      *ContractFile
	Pkg     *packages.Package
	Fn      *types.Func
	Decl    *ast.FuncDecl
	Lit     *ast.FuncLit
	Outer   *ast.FuncDecl // for funclits
	Body    *ast.BlockStmt
	FuncTyp *ast.FuncType

	Requires   []CExpr
	Ensures    []CExpr
	Assumes    []CExpr
	LoopInv    map[int][]CExpr
	LoopDec    map[int]CExpr
	Unroll     map[int]int
	OnCall     []CExpr
	OnAssign   []CExpr
	RetExpr    map[*Directive]CExpr
	BefCall    []CExpr
	HavocCalls []string
	FrameCalls []string
	AppendLike []string
	Clobbers   map[string][]CExpr
	BefRet     []CExpr
	Assigns    []CExpr
	NonNil     []CExpr
	Ghost      []*GhostVar
	Results    []*types.Var // variables that denote the results in ensures clauses
	Loops      []ast.Stmt   // loops of the body in pre-order (not descending into func literals)
	Callback   map[string]*Directive
	NoPanic    bool
	NoWrap     bool
	Opaque     bool
	Trusted    bool
	Abstract   bool
	Errs       []string
}

type GhostVar struct {
	Name string
	Var  *types.Var
	Init CExpr
}

type World struct {
	privCache map[fieldKey]bool
	Fset      *token.FileSet
	Pkgs      map[string]*packages.Package
	Decls     map[*types.Func]*declInfo
	Contracts map[*types.Func]*Contract
	LitC      map[*ast.FuncLit]*Contract
	All       []*Contract
	Files     []*ContractFile
	LoadS     float64
}

type declInfo struct {
	Decl *ast.FuncDecl
	Pkg  *packages.Package
}

// goEnv is the environment for every go command the engine runs: the cached
// go1.25.3 toolchain (the one /repo/go.mod names) first on PATH, offline.
func goEnv() []string {
	modcache := os.Getenv("GOMODCACHE")
	if modcache == "" {
		gp := os.Getenv("GOPATH")
		if gp == "" {
			home, _ := os.UserHomeDir()
			gp = filepath.Join(home, "go")
		}
		modcache = filepath.Join(gp, "pkg", "mod")
	}
	tc := filepath.Join(modcache, "golang.org", "toolchain@v0.0.1-go1.25.3.linux-amd64", "bin")
	var env []string
	for _, e := range os.Environ() {
		if strings.HasPrefix(e, "PATH=") || strings.HasPrefix(e, "GOFLAGS=") || strings.HasPrefix(e, "GOPROXY=") || strings.HasPrefix(e, "GOTOOLCHAIN=") || strings.HasPrefix(e, "GOSUMDB=") {
			continue
		}
		env = append(env, e)
	}
	return append(env, "PATH="+tc+string(os.PathListSeparator)+os.Getenv("PATH"), "GOFLAGS=-mod=mod", "GOPROXY=off", "GOTOOLCHAIN=local")
}

func findContractFiles(root string) ([]string, error) {
	var out []string
	err := filepath.WalkDir(root, func(p string, d os.DirEntry, err error) error {
		if err != nil {
			return nil
		}
		if d.IsDir() {
			n := d.Name()
			if n == ".git" || n == "testdata" || n == "node_modules" {
				return filepath.SkipDir
			}
			return nil
		}
		if d.Name() == "zz_verif_contracts.go" {
			out = append(out, p)
		}
		return nil
	})
	sort.Strings(out)
	return out, err
}

// sigInfo is what phase 1 (syntax only) learns about a contracted function.
type sigInfo struct {
	resultTypes []string
	resultNames []string
	imports     []string // import specs (text) needed by the result types
}

func phase1Sig(dir string, b *Block) (*sigInfo, error) {
	fset := token.NewFileSet()
	ents, err := os.ReadDir(dir)
	if err != nil {
		return nil, err
	}
	for _, e := range ents {
		n := e.Name()
		if !strings.HasSuffix(n, ".go") || strings.HasSuffix(n, "_test.go") || n == "zz_verif_contracts.go" {
			continue
		}
		f, err := parser.ParseFile(fset, filepath.Join(dir, n), nil, parser.SkipObjectResolution)
		if err != nil {
			continue
		}
		for _, d := range f.Decls {
			var ftype *ast.FuncType
			switch dd := d.(type) {
			case *ast.FuncDecl:
				if dd.Name.Name != b.Name || recvString(dd) != b.Recv {
					continue
				}
				ftype = dd.Type
				if b.Target == "funclit" {
					if dd.Body == nil {
						continue
					}
					lits := collectFuncLits(dd.Body)
					if b.LitOrd < 1 || b.LitOrd > len(lits) {
						continue
					}
					ftype = lits[b.LitOrd-1].Type
				}
			case *ast.GenDecl:
				if b.Target != "funclit" || b.Recv != "" || dd.Tok != token.VAR {
					continue
				}
				for _, sp := range dd.Specs {
					vs := sp.(*ast.ValueSpec)
					for i, id := range vs.Names {
						if id.Name == b.Name && i < len(vs.Values) {
							lits := collectFuncLits(vs.Values[i])
							if b.LitOrd >= 1 && b.LitOrd <= len(lits) {
								ftype = lits[b.LitOrd-1].Type
							}
						}
					}
				}
			}
			if ftype == nil {
				continue
			}
			si := &sigInfo{}
			if ftype.Results != nil {
				for _, fl := range ftype.Results.List {
					var buf bytes.Buffer
					printer.Fprint(&buf, fset, fl.Type)
					cnt := len(fl.Names)
					if cnt == 0 {
						cnt = 1
					}
					for i := 0; i < cnt; i++ {
						si.resultTypes = append(si.resultTypes, buf.String())
						if len(fl.Names) > 0 {
							si.resultNames = append(si.resultNames, fl.Names[i].Name)
						} else {
							si.resultNames = append(si.resultNames, "")
						}
					}
				}
			}
			all := strings.Join(si.resultTypes, " ")
			for _, im := range f.Imports {
				name := ""
				if im.Name != nil {
					name = im.Name.Name
				} else {
					p := strings.Trim(im.Path.Value, `"`)
					name = p[strings.LastIndex(p, "/")+1:]
					if strings.HasPrefix(name, "v") && len(name) <= 3 { // module major version suffix
						q := strings.TrimSuffix(p, "/"+name)
						name = q[strings.LastIndex(q, "/")+1:]
					}
				}
				if strings.Contains(all, name+".") {
					spec := im.Path.Value
					if im.Name != nil {
						spec = im.Name.Name + " " + spec
					}
					si.imports = append(si.imports, spec)
				}
			}
			return si, nil
		}
	}
	return nil, fmt.Errorf("function %s not found in %s", b.Key(), dir)
}

func recvString(fd *ast.FuncDecl) string {
	if fd.Recv == nil || len(fd.Recv.List) == 0 {
		return ""
	}
	t := fd.Recv.List[0].Type
	star := ""
	if s, ok := t.(*ast.StarExpr); ok {
		star = "*"
		t = s.X
	}
	switch x := t.(type) {
	case *ast.Ident:
		return star + x.Name
	case *ast.IndexExpr:
		if id, ok := x.X.(*ast.Ident); ok {
			return star + id.Name
		}
	case *ast.IndexListExpr:
		if id, ok := x.X.(*ast.Ident); ok {
			return star + id.Name
		}
	}
	return star + "?"
}

// synthFile renders the synthetic (overlay-only) Go file for one contract file.
func synthFile(cf *ContractFile) (string, map[*Block]*sigInfo, []string) {
	var errs []string
	sigs := map[*Block]*sigInfo{}
	imports := map[string]bool{}
	for _, im := range cf.Imports {
		imports[im] = true
	}
	var vars strings.Builder
	for _, b := range cf.Blocks {
		{
			si, err := phase1Sig(cf.Dir, b)
			if err != nil {
				// may be a ghost function defined in this contract file: its results must be named.
				continue
			}
			sigs[b] = si
			emitted := ""
			for i, t := range si.resultTypes {
				if si.resultNames[i] == "" || si.resultNames[i] == "_" {
					fmt.Fprintf(&vars, "var pvc_r_%s_%d %s\n", b.ID, i, t)
					emitted += " " + t
				}
			}
			for _, im := range si.imports {
				name := im
				if i := strings.IndexByte(im, ' '); i > 0 {
					name = im[:i]
				} else {
					p := strings.Trim(im, `"`)
					name = p[strings.LastIndex(p, "/")+1:]
				}
				if strings.Contains(emitted, name+".") {
					imports[im] = true
				}
			}
		}
		for _, d := range b.Of("ghostvar") {
			fmt.Fprintf(&vars, "var %s %s\n", b.GhostVar[d.Name], d.Arg)
		}
	}
	var sb strings.Builder
	sb.WriteString("//go:build verif\n\npackage " + cf.Package + "\n\n")
	var ims []string
	for im := range imports {
		ims = append(ims, im)
	}
	sort.Strings(ims)
	if len(ims) > 0 {
		sb.WriteString("import (\n")
		for _, im := range ims {
			sb.WriteString("\t" + im + "\n")
		}
		sb.WriteString(")\n")
	}
	sb.WriteString(synthHelpers)
	sb.WriteString(vars.String())
	sb.WriteString("\n")
	for _, g := range cf.Ghost {
		// ghost code may use the contract expression syntax inside pvc_assert(...)/pvc_assume(...)
		sb.WriteString(g + "\n")
	}
	return sb.String(), sigs, errs
}

func LoadWorld(patterns []string, extraOverlay map[string][]byte) (*World, error) {
	files, err := findContractFiles(repoRoot)
	if err != nil {
		return nil, err
	}
	w := &World{Pkgs: map[string]*packages.Package{}, Decls: map[*types.Func]*declInfo{}, Contracts: map[*types.Func]*Contract{}, LitC: map[*ast.FuncLit]*Contract{}}
	overlay := map[string][]byte{}
	for k, v := range extraOverlay {
		overlay[k] = v
	}
	sigsByFile := map[*ContractFile]map[*Block]*sigInfo{}
	want := map[string]bool{}
	for _, p := range patterns {
		want[filepath.Clean(filepath.Join(repoRoot, p))] = true
	}
	var loadPats []string
	for _, f := range files {
		// every contract file is parsed and overlaid (the callees of a verified function may
		// live in other packages); only the requested packages are roots of the load
		root := len(patterns) == 0 || want[filepath.Dir(f)]
		var cf *ContractFile
		if data, ok := extraOverlay[f]; ok {
			tmp, err := os.CreateTemp("", "pvc-cf-*.go")
			if err != nil {
				return nil, err
			}
			tmp.Write(data)
			tmp.Close()
			cf, err = ParseContractFile(tmp.Name())
			os.Remove(tmp.Name())
			if err != nil {
				return nil, err
			}
			cf.Path, cf.Dir = f, filepath.Dir(f)
		} else {
			cf, err = ParseContractFile(f)
			if err != nil {
				return nil, err
			}
		}
		if len(cf.Ghost) > 0 {
			// rewrite contract syntax inside ghost code line by line is not attempted:
			// ghost code is plain Go (use pvc_implies etc. directly).
		}
		src, sigs, _ := synthFile(cf)
		sigsByFile[cf] = sigs
		overlay[filepath.Join(cf.Dir, "zz_verif_gen.go")] = []byte(src)
		w.Files = append(w.Files, cf)
		if root {
			rel, _ := filepath.Rel(repoRoot, cf.Dir)
			loadPats = append(loadPats, "./"+rel)
		}
	}
	if len(loadPats) == 0 {
		return nil, fmt.Errorf("no contract files for %v", patterns)
	}
	cfg := &packages.Config{
		Mode: packages.NeedName | packages.NeedFiles | packages.NeedSyntax | packages.NeedTypes |
			packages.NeedTypesInfo | packages.NeedDeps | packages.NeedImports | packages.NeedTypesSizes,
		Dir:        repoRoot,
		BuildFlags: []string{"-tags=verif"},
		Overlay:    overlay,
		Env:        goEnv(),
	}
	pkgs, err := packages.Load(cfg, loadPats...)
	if err != nil {
		return nil, err
	}
	packages.Visit(pkgs, nil, func(p *packages.Package) {
		w.Pkgs[p.PkgPath] = p
		if w.Fset == nil {
			w.Fset = p.Fset
		}
		if p.TypesInfo == nil {
			return
		}
		for _, f := range p.Syntax {
			for _, d := range f.Decls {
				if fd, ok := d.(*ast.FuncDecl); ok {
					if fn, ok := p.TypesInfo.Defs[fd.Name].(*types.Func); ok {
						w.Decls[fn] = &declInfo{fd, p}
					}
				}
			}
		}
	})
	for _, p := range pkgs {
		for _, e := range p.Errors {
			return nil, fmt.Errorf("package %s does not type-check (contract drift or broken tree): %v", p.PkgPath, e)
		}
	}
	// resolve blocks
	for _, cf := range w.Files {
		var pkg *packages.Package
		for _, p := range w.Pkgs {
			if len(p.GoFiles) > 0 && filepath.Dir(p.GoFiles[0]) == cf.Dir && p.TypesInfo != nil {
				pkg = p
			}
		}
		if pkg == nil {
			continue // not in the import closure of the requested packages
		}
		for _, e := range pkg.Errors {
			return nil, fmt.Errorf("package %s does not type-check (contract drift or broken tree): %v", pkg.PkgPath, e)
		}
		for _, b := range cf.Blocks {
			c := &Contract{Block: b, CF: cf, Pkg: pkg, LoopInv: map[int][]CExpr{}, LoopDec: map[int]CExpr{}, Unroll: map[int]int{}, Callback: map[string]*Directive{}}
			w.All = append(w.All, c)
			if err := w.resolve(c, sigsByFile[cf][b]); err != nil {
				c.Errs = append(c.Errs, err.Error())
				continue
			}
			if c.Lit != nil {
				w.LitC[c.Lit] = c
			} else {
				w.Contracts[c.Fn] = c
			}
		}
	}
	return w, nil
}

func (w *World) findDecl(pkg *packages.Package, recv, name string) *ast.FuncDecl {
	for _, f := range pkg.Syntax {
		for _, d := range f.Decls {
			if fd, ok := d.(*ast.FuncDecl); ok && fd.Name.Name == name && recvString(fd) == recv {
				return fd
			}
		}
	}
	return nil
}

func collectLoops(body *ast.BlockStmt) []ast.Stmt {
	var out []ast.Stmt
	ast.Inspect(body, func(n ast.Node) bool {
		switch x := n.(type) {
		case *ast.FuncLit:
			return false
		case *ast.ForStmt:
			out = append(out, x)
		case *ast.RangeStmt:
			out = append(out, x)
		}
		return true
	})
	return out
}

func collectFuncLits(body ast.Node) []*ast.FuncLit {
	var out []*ast.FuncLit
	ast.Inspect(body, func(n ast.Node) bool {
		if x, ok := n.(*ast.FuncLit); ok {
			out = append(out, x)
		}
		return true
	})
	return out
}

func (w *World) check(c *Contract, pos token.Pos, d *Directive, text string, subst map[string]string) (CExpr, error) {
	rw, err := RewriteExpr(text)
	if err != nil {
		return CExpr{}, fmt.Errorf("%s:%d: %v", c.Block.File, d.Line, err)
	}
	rw = substIdents(rw, subst)
	rw = substIdents(rw, map[string]string{"old": "pvc_old"})
	e, err := parser.ParseExprFrom(w.Fset, fmt.Sprintf("%s:%d", filepath.Base(c.Block.File), d.Line), rw, 0)
	if err != nil {
		return CExpr{}, fmt.Errorf("%s:%d: cannot parse %q: %v", c.Block.File, d.Line, rw, err)
	}
	if err := types.CheckExpr(w.Fset, c.Pkg.Types, pos, e, c.Pkg.TypesInfo); err != nil {
		return CExpr{}, fmt.Errorf("%s:%d: contract drift: %q does not type-check against the code: %v", c.Block.File, d.Line, text, err)
	}
	return CExpr{Dir: d, Expr: e, Text: text}, nil
}

func (w *World) resolve(c *Contract, si *sigInfo) error {
	b := c.Block
	fd := w.findDecl(c.Pkg, b.Recv, b.Name)
	var container ast.Node
	if fd != nil && fd.Body != nil {
		container = fd.Body
	}
	if fd == nil && b.Target == "funclit" && b.Recv == "" {
		// function literal in the initialiser of a package-level variable
		for _, f := range c.Pkg.Syntax {
			for _, d := range f.Decls {
				gd, ok := d.(*ast.GenDecl)
				if !ok || gd.Tok != token.VAR {
					continue
				}
				for _, sp := range gd.Specs {
					vs := sp.(*ast.ValueSpec)
					for i, id := range vs.Names {
						if id.Name == b.Name && i < len(vs.Values) {
							container = vs.Values[i]
						}
					}
				}
			}
		}
	}
	if container == nil {
		return fmt.Errorf("%s:%d: missing: function %s not found in package %s", b.File, b.Line, b.Key(), c.Pkg.PkgPath)
	}
	subst := map[string]string{}
	for k, v := range b.GhostVar {
		subst[k] = v
	}
	setResults := func(sig *types.Signature) error {
		for i := 0; i < sig.Results().Len(); i++ {
			rv := sig.Results().At(i)
			if rv.Name() == "" || rv.Name() == "_" {
				name := fmt.Sprintf("pvc_r_%s_%d", b.ID, i)
				obj, _ := c.Pkg.Types.Scope().Lookup(name).(*types.Var)
				if obj == nil {
					return fmt.Errorf("internal: synthetic result var %s missing", name)
				}
				c.Results = append(c.Results, obj)
				subst[fmt.Sprintf("result%d", i)] = name
				if sig.Results().Len() == 1 {
					subst["result"] = name
				}
			} else {
				c.Results = append(c.Results, rv)
				subst[fmt.Sprintf("result%d", i)] = rv.Name()
				if sig.Results().Len() == 1 {
					subst["result"] = rv.Name()
				}
			}
		}
		return nil
	}
	if b.Target == "funclit" {
		lits := collectFuncLits(container)
		if b.LitOrd < 1 || b.LitOrd > len(lits) {
			return fmt.Errorf("%s:%d: missing: %s has %d function literals", b.File, b.Line, b.Name, len(lits))
		}
		c.Lit = lits[b.LitOrd-1]
		c.Outer = fd
		c.Body = c.Lit.Body
		c.FuncTyp = c.Lit.Type
		if sig, ok := c.Pkg.TypesInfo.TypeOf(c.Lit).(*types.Signature); ok {
			if err := setResults(sig); err != nil {
				return err
			}
		}
	} else {
		c.Decl = fd
		c.Body = fd.Body
		c.FuncTyp = fd.Type
		c.Fn, _ = c.Pkg.TypesInfo.Defs[fd.Name].(*types.Func)
		if c.Fn == nil {
			return fmt.Errorf("no types.Func for %s", b.Key())
		}
		// result variables
		sig := c.Fn.Type().(*types.Signature)
		for i := 0; i < sig.Results().Len(); i++ {
			rv := sig.Results().At(i)
			if rv.Name() == "" || rv.Name() == "_" {
				name := fmt.Sprintf("pvc_r_%s_%d", b.ID, i)
				obj, _ := c.Pkg.Types.Scope().Lookup(name).(*types.Var)
				if obj == nil {
					return fmt.Errorf("internal: synthetic result var %s missing", name)
				}
				c.Results = append(c.Results, obj)
				subst[fmt.Sprintf("result%d", i)] = name
				if sig.Results().Len() == 1 {
					subst["result"] = name
				}
			} else {
				c.Results = append(c.Results, rv)
				subst[fmt.Sprintf("result%d", i)] = rv.Name()
				if sig.Results().Len() == 1 {
					subst["result"] = rv.Name()
				}
			}
		}
		_ = si
	}
	c.Loops = collectLoops(c.Body)
	bodyPos := c.Body.Lbrace + 1
	endPos := c.Body.Rbrace
	for _, d := range b.Dirs {
		switch d.Kind {
		case "nopanic":
			c.NoPanic = true
		case "nowrap":
			c.NoWrap = true
		case "opaque":
			c.Opaque = true
		case "trusted":
			c.Trusted = true
		case "mode":
			if d.Arg == "abstract" {
				c.Abstract = true
			}
		case "callback":
			c.Callback[d.Name] = d
		case "requires":
			ce, err := w.check(c, bodyPos, d, d.Expr, subst)
			if err != nil {
				return err
			}
			c.Requires = append(c.Requires, ce)
		case "assume":
			ce, err := w.check(c, bodyPos, d, d.Expr, subst)
			if err != nil {
				return err
			}
			c.Assumes = append(c.Assumes, ce)
		case "nonnil":
			ce, err := w.check(c, bodyPos, d, d.Expr, subst)
			if err != nil {
				return err
			}
			c.NonNil = append(c.NonNil, ce)
		case "ensures":
			ce, err := w.check(c, endPos, d, d.Expr, subst)
			if err != nil {
				return err
			}
			c.Ensures = append(c.Ensures, ce)
		case "assigns":
			var parts []string
			last := 0
			topLevel(d.Expr, func(i int) bool {
				if d.Expr[i] == ',' {
					parts = append(parts, d.Expr[last:i])
					last = i + 1
				}
				return false
			})
			parts = append(parts, d.Expr[last:])
			for _, p := range parts {
				p = strings.TrimSpace(p)
				elems := strings.HasSuffix(p, "[*]")
				p = strings.TrimSuffix(p, "[*]")
				ce, err := w.check(c, bodyPos, d, p, subst)
				if err != nil {
					return err
				}
				// "x[*]" and a bare slice-typed identifier mean the elements of the slice;
				// any other expression means the location itself.
				if _, isID := ce.Expr.(*ast.Ident); isID || elems {
					ce.Text = p + "[*]"
				} else {
					ce.Text = p
				}
				c.Assigns = append(c.Assigns, ce)
			}
		case "ghostvar":
			obj, _ := c.Pkg.Types.Scope().Lookup(b.GhostVar[d.Name]).(*types.Var)
			if obj == nil {
				return fmt.Errorf("internal: ghost var %s missing", d.Name)
			}
			ce, err := w.check(c, bodyPos, d, d.Expr, subst)
			if err != nil {
				return err
			}
			c.Ghost = append(c.Ghost, &GhostVar{Name: d.Name, Var: obj, Init: ce})
		case "loopinv", "loopdec":
			if d.Loop < 1 || d.Loop > len(c.Loops) {
				return fmt.Errorf("%s:%d: missing: %s has %d loops, contract names loop %d", b.File, d.Line, b.Key(), len(c.Loops), d.Loop)
			}
			var pos token.Pos
			switch l := c.Loops[d.Loop-1].(type) {
			case *ast.ForStmt:
				pos = l.Body.Lbrace + 1
			case *ast.RangeStmt:
				pos = l.Body.Lbrace + 1
			}
			ce, err := w.check(c, pos, d, d.Expr, subst)
			if err != nil {
				return err
			}
			if d.Kind == "loopinv" {
				c.LoopInv[d.Loop] = append(c.LoopInv[d.Loop], ce)
			} else {
				c.LoopDec[d.Loop] = ce
			}
		case "loopunroll":
			c.Unroll[d.Loop] = d.N
		case "oncall", "beforecall":
			// type-checked lazily at each matching call site (position dependent);
			// here check at least once at the first matching site.
			sites := w.callSites(c, d)
			if len(sites) == 0 {
				return fmt.Errorf("%s:%d: missing: no call %q%s in %s", b.File, d.Line, d.CallText, ordSuffix(d.CallOrd), b.Key())
			}
			// pvc_arg(k) stands for the k-th argument expression of the call (its source
			// text, evaluated in the caller's scope just before the call). All matching
			// sites must then agree on that text, or the directive must name one site.
			if strings.Contains(d.Expr, "pvc_arg(") {
				ex, err := substArgs(w, d, sites)
				if err != nil {
					return fmt.Errorf("%s:%d: %v", b.File, d.Line, err)
				}
				d.Expr = ex
			}
			ce, err := w.check(c, sites[0].Pos(), d, d.Expr, subst)
			if err != nil {
				return err
			}
			if d.Kind == "oncall" {
				if d.Ret != "" && d.Ret != "nil" && d.Ret != "err" && d.Ret != "ok" {
					// "returning io.EOF": the update applies when the call's error is that sentinel
					re, err := w.check(c, sites[0].Pos(), d, d.Ret, nil)
					if err != nil {
						return err
					}
					if c.RetExpr == nil {
						c.RetExpr = map[*Directive]CExpr{}
					}
					c.RetExpr[d] = re
				}
				c.OnCall = append(c.OnCall, ce)
			} else {
				c.BefCall = append(c.BefCall, ce)
			}
		case "havoccall":
			if len(w.callSites(c, d)) == 0 {
				return fmt.Errorf("%s:%d: missing: no call %q in %s", b.File, d.Line, d.CallText, b.Key())
			}
			c.HavocCalls = append(c.HavocCalls, d.CallText)
		case "clobbers":
			sites := w.callSites(c, d)
			if len(sites) == 0 {
				return fmt.Errorf("%s:%d: missing: no call %q in %s", b.File, d.Line, d.CallText, b.Key())
			}
			if c.Clobbers == nil {
				c.Clobbers = map[string][]CExpr{}
			}
			for _, part := range strings.Split(d.Expr, ",") {
				ce, err := w.check(c, sites[0].End(), d, strings.TrimSpace(part), subst)
				if err != nil {
					return err
				}
				c.Clobbers[d.CallText] = append(c.Clobbers[d.CallText], ce)
			}
		case "appendlike":
			if len(w.callSites(c, d)) == 0 {
				return fmt.Errorf("%s:%d: missing: no call %q in %s", b.File, d.Line, d.CallText, b.Key())
			}
			c.AppendLike = append(c.AppendLike, d.CallText)
		case "framecall":
			if len(w.callSites(c, d)) == 0 {
				return fmt.Errorf("%s:%d: missing: no call %q in %s", b.File, d.Line, d.CallText, b.Key())
			}
			c.FrameCalls = append(c.FrameCalls, d.CallText)
		case "onassign":
			// ghost update at every assignment whose left-hand side has the given text
			var site ast.Node
			nth := 0
			ast.Inspect(c.Body, func(n ast.Node) bool {
				if as, ok := n.(*ast.AssignStmt); ok && site == nil {
					for _, l := range as.Lhs {
						if exprText(w.Fset, l) == d.CallText {
							nth++
							if d.CallOrd == 0 || d.CallOrd == nth {
								site = as
							}
						}
					}
				}
				return true
			})
			if site == nil {
				return fmt.Errorf("%s:%d: missing: no assignment to %q in %s", b.File, d.Line, d.CallText, b.Key())
			}
			ce, err := w.check(c, site.End(), d, d.Expr, subst)
			if err != nil {
				return err
			}
			c.OnAssign = append(c.OnAssign, ce)
		case "beforereturn":
			ce, err := w.check(c, endPos, d, d.Expr, subst)
			if err != nil {
				return err
			}
			c.BefRet = append(c.BefRet, ce)
		}
	}
	return nil
}

func ordSuffix(n int) string {
	if n == 0 {
		return ""
	}
	return fmt.Sprintf("#%d", n)
}

func exprText(fset *token.FileSet, e ast.Expr) string {
	var buf bytes.Buffer
	printer.Fprint(&buf, fset, e)
	return strings.Join(strings.Fields(buf.String()), "")
}

// callSites lists the call expressions of the contract's body whose callee text
// matches the directive (not descending into nested function literals that
// have their own contract).
func (w *World) callSites(c *Contract, d *Directive) []*ast.CallExpr {
	var out []*ast.CallExpr
	n := 0
	ast.Inspect(c.Body, func(nd ast.Node) bool {
		if ce, ok := nd.(*ast.CallExpr); ok {
			if exprText(w.Fset, ce.Fun) == d.CallText ||
				strings.HasSuffix(d.CallText, ")") && normCallText(exprText(w.Fset, ce)) == d.CallText {
				n++
				if d.CallOrd == 0 || d.CallOrd == n {
					out = append(out, ce)
				}
			}
		}
		return true
	})
	return out
}

var reArg = regexp.MustCompile(`pvc_arg\((\d+)\)`)

func substArgs(w *World, d *Directive, sites []*ast.CallExpr) (string, error) {
	var ferr error
	out := reArg.ReplaceAllStringFunc(d.Expr, func(m string) string {
		k, _ := strconv.Atoi(reArg.FindStringSubmatch(m)[1])
		text := ""
		for i, site := range sites {
			if k >= len(site.Args) {
				ferr = fmt.Errorf("contract drift: pvc_arg(%d): call %q has %d arguments", k, d.CallText, len(site.Args))
				return m
			}
			t := exprText(w.Fset, site.Args[k])
			if i > 0 && t != text {
				ferr = fmt.Errorf("pvc_arg(%d) is ambiguous: call %q occurs with different arguments (name one site with #n)", k, d.CallText)
				return m
			}
			text = t
		}
		return "(" + text + ")"
	})
	return out, ferr
}
