package main

// SMT term layer: terms are strings with a sort; a Ctx owns declarations and
// shared definitions (define-fun) so that large terms stay small in the text.

import (
	"fmt"
	"regexp"
	"sort"
	"strconv"
	"strings"
)

type Sort string

const (
	SBool  Sort = "Bool"
	SErr   Sort = "Err"
	SStr   Sort = "Str"
	SBytes Sort = "Bytes"
	SIface Sort = "Iface"
	SFn    Sort = "Fn"
)

func BV(n int) Sort { return Sort(fmt.Sprintf("(_ BitVec %d)", n)) }

var SBV64 = BV(64)

func ArrSort(elem Sort) Sort { return Sort(fmt.Sprintf("(Array (_ BitVec 64) %s)", elem)) }

func (s Sort) IsBV() bool { return strings.HasPrefix(string(s), "(_ BitVec ") }
func (s Sort) Width() int {
	if !s.IsBV() {
		return 0
	}
	t := strings.TrimSuffix(strings.TrimPrefix(string(s), "(_ BitVec "), ")")
	n, _ := strconv.Atoi(t)
	return n
}
func (s Sort) IsArr() bool { return strings.HasPrefix(string(s), "(Array ") }
func (s Sort) ArrElem() Sort {
	t := strings.TrimPrefix(string(s), "(Array (_ BitVec 64) ")
	return Sort(strings.TrimSuffix(t, ")"))
}

// Term is an SMT term. If IsC, the term is the bit-vector (or bool) literal C.
type Term struct {
	S    string
	Sort Sort
	IsC  bool
	C    uint64
}

var (
	True  = Term{S: "true", Sort: SBool, IsC: true, C: 1}
	False = Term{S: "false", Sort: SBool, IsC: true, C: 0}
)

func mask(w int) uint64 {
	if w >= 64 {
		return ^uint64(0)
	}
	return (uint64(1) << uint(w)) - 1
}

func BVLit(v uint64, w int) Term {
	v &= mask(w)
	return Term{S: fmt.Sprintf("(_ bv%d %d)", v, w), Sort: BV(w), IsC: true, C: v}
}

func BoolLit(b bool) Term {
	if b {
		return True
	}
	return False
}

func sext(v uint64, w int) int64 {
	if w >= 64 {
		return int64(v)
	}
	if v&(1<<uint(w-1)) != 0 {
		return int64(v | ^mask(w))
	}
	return int64(v)
}

func app(sort Sort, op string, args ...Term) Term {
	var b strings.Builder
	b.WriteByte('(')
	b.WriteString(op)
	for _, a := range args {
		b.WriteByte(' ')
		b.WriteString(a.S)
	}
	b.WriteByte(')')
	return Term{S: b.String(), Sort: sort}
}

func Not(a Term) Term {
	if a.IsC {
		return BoolLit(a.C == 0)
	}
	if strings.HasPrefix(a.S, "(not ") {
		return Term{S: a.S[5 : len(a.S)-1], Sort: SBool}
	}
	return app(SBool, "not", a)
}

func And(ts ...Term) Term {
	var out []Term
	for _, t := range ts {
		if t.IsC {
			if t.C == 0 {
				return False
			}
			continue
		}
		out = append(out, t)
	}
	switch len(out) {
	case 0:
		return True
	case 1:
		return out[0]
	}
	return app(SBool, "and", out...)
}

func Or(ts ...Term) Term {
	var out []Term
	for _, t := range ts {
		if t.IsC {
			if t.C != 0 {
				return True
			}
			continue
		}
		out = append(out, t)
	}
	switch len(out) {
	case 0:
		return False
	case 1:
		return out[0]
	}
	return app(SBool, "or", out...)
}

func Implies(a, b Term) Term {
	if a.IsC {
		if a.C == 0 {
			return True
		}
		return b
	}
	if b.IsC {
		if b.C != 0 {
			return True
		}
		return Not(a)
	}
	return app(SBool, "=>", a, b)
}

func Ite(c, a, b Term) Term {
	if c.IsC {
		if c.C != 0 {
			return a
		}
		return b
	}
	if a.S == b.S {
		return a
	}
	if a.Sort == SBool {
		if a.IsC && b.IsC {
			if a.C != 0 {
				return c
			}
			return Not(c)
		}
	}
	if a.Sort.IsBV() && a.Sort == b.Sort {
		// ite(c, x+p, x+q) = x + ite(c, p, q) (and with x itself as x+0): offsets and
		// lengths of merged sub-slices keep their common base, which lets the solvers'
		// arithmetic normalisation cancel it
		w := a.Sort.Width()
		for _, op := range []string{"bvadd", "bvsub"} {
			pa, qa, oka := splitApp(expandDef(a.S), op)
			pb, qb, okb := splitApp(expandDef(b.S), op)
			switch {
			case oka && okb && pa == pb:
				return BVBin(op, termOfText(pa, a.Sort), Ite(c, termOfText(qa, a.Sort), termOfText(qb, a.Sort)))
			case oka && pa == b.S:
				return BVBin(op, b, Ite(c, termOfText(qa, a.Sort), BVLit(0, w)))
			case okb && pb == a.S:
				return BVBin(op, a, Ite(c, BVLit(0, w), termOfText(qb, a.Sort)))
			}
		}
	}
	return app(a.Sort, "ite", c, a, b)
}

func Eq(a, b Term) Term {
	if a.S == b.S {
		return True
	}
	if a.IsC && b.IsC {
		return BoolLit(a.C == b.C)
	}
	if a.Sort != b.Sort {
		panic(fmt.Sprintf("Eq: sort mismatch %s : %s vs %s : %s", a.S, a.Sort, b.S, b.Sort))
	}
	return app(SBool, "=", a, b)
}

func Ne(a, b Term) Term { return Not(Eq(a, b)) }

// splitApp splits the text of a binary application "(op x y)" into x and y.
func splitApp(s, op string) (string, string, bool) {
	pre := "(" + op + " "
	if !strings.HasPrefix(s, pre) || !strings.HasSuffix(s, ")") {
		return "", "", false
	}
	body := s[len(pre) : len(s)-1]
	depth := 0
	cut := -1
	for i := 0; i < len(body); i++ {
		switch body[i] {
		case '(':
			depth++
		case ')':
			depth--
			if depth < 0 {
				return "", "", false
			}
		case ' ':
			if depth == 0 {
				if cut >= 0 {
					return "", "", false // more than two arguments
				}
				cut = i
			}
		}
	}
	if cut <= 0 || depth != 0 {
		return "", "", false
	}
	return body[:cut], body[cut+1:], true
}

// termOfText rebuilds a term from its text (recognising bit-vector literals).
func termOfText(s string, sort Sort) Term {
	var v uint64
	var w int
	if n, _ := fmt.Sscanf(s, "(_ bv%d %d)", &v, &w); n == 2 && sort.IsBV() && w == sort.Width() {
		return BVLit(v, w)
	}
	return Term{S: s, Sort: sort}
}

// BVBin applies a binary bit-vector operator with constant folding.
func BVBin(op string, a, b Term) Term {
	w := a.Sort.Width()
	if a.Sort != b.Sort {
		panic(fmt.Sprintf("BVBin %s: sort mismatch %s:%s vs %s:%s", op, a.S, a.Sort, b.S, b.Sort))
	}
	if a.IsC && b.IsC && w <= 64 {
		x, y := a.C, b.C
		switch op {
		case "bvadd":
			return BVLit(x+y, w)
		case "bvsub":
			return BVLit(x-y, w)
		case "bvmul":
			return BVLit(x*y, w)
		case "bvand":
			return BVLit(x&y, w)
		case "bvor":
			return BVLit(x|y, w)
		case "bvxor":
			return BVLit(x^y, w)
		case "bvshl":
			if y >= uint64(w) {
				return BVLit(0, w)
			}
			return BVLit(x<<y, w)
		case "bvlshr":
			if y >= uint64(w) {
				return BVLit(0, w)
			}
			return BVLit(x>>y, w)
		case "bvudiv":
			if y != 0 {
				return BVLit(x/y, w)
			}
		case "bvurem":
			if y != 0 {
				return BVLit(x%y, w)
			}
		}
	}
	// identities
	switch op {
	case "bvsub":
		// x - (x - y) = y ; (x + y) - y = x ; (x + y) - x = y   (modular arithmetic)
		if p, q, ok := splitApp(b.S, "bvsub"); ok && p == a.S {
			return termOfText(q, a.Sort)
		}
		if p, q, ok := splitApp(a.S, "bvadd"); ok {
			if q == b.S {
				return termOfText(p, a.Sort)
			}
			if p == b.S {
				return termOfText(q, a.Sort)
			}
		}
	}
	switch op {
	case "bvadd":
		if a.IsC && a.C == 0 {
			return b
		}
		if b.IsC && b.C == 0 {
			return a
		}
		// (x - y) + y = x ; y + (x - y) = x
		if p, q, ok := splitApp(a.S, "bvsub"); ok && q == b.S {
			return termOfText(p, a.Sort)
		}
		if p, q, ok := splitApp(b.S, "bvsub"); ok && q == a.S {
			return termOfText(p, a.Sort)
		}
	case "bvsub", "bvshl", "bvlshr", "bvashr", "bvor", "bvxor":
		if b.IsC && b.C == 0 {
			return a
		}
	case "bvmul":
		if b.IsC && b.C == 1 {
			return a
		}
		if a.IsC && a.C == 1 {
			return b
		}
	}
	if (op == "bvurem" || op == "bvudiv" || op == "bvsrem" || op == "bvsdiv") && !b.IsC {
		// Division and remainder by a symbolic divisor go through a named function (defined
		// as the SMT-LIB operator in the exact query): the "abstract arithmetic" variant of a
		// query replaces the definition by an uninterpreted function plus bound facts, which
		// is a sound weakening that spares the solvers the bit-blasted divider.
		return app(a.Sort, fmt.Sprintf("pvc_%s_%d", op[2:], w), a, b)
	}
	return app(a.Sort, op, a, b)
}

var arithFnRe = regexp.MustCompile(`pvc_(urem|udiv|srem|sdiv)_(\d+)`)

// arithDefs returns the define-fun lines for the pvc_urem_W / pvc_udiv_W functions a query uses.
func arithDefs(q string) string {
	seen := map[string]bool{}
	var b strings.Builder
	for _, m := range arithFnRe.FindAllStringSubmatch(q, -1) {
		if seen[m[0]] {
			continue
		}
		seen[m[0]] = true
		fmt.Fprintf(&b, "(define-fun %s ((a (_ BitVec %s)) (b (_ BitVec %s))) (_ BitVec %s) (bv%s a b))\n", m[0], m[2], m[2], m[2], m[1])
	}
	return b.String()
}

// abstractArith turns the exact query into its abstract-arithmetic variant: the
// division/remainder functions become uninterpreted and every ground application gets
// the facts  b != 0 ==> a%b < b,  a%b <= a,  b != 0 ==> a/b <= a.  Every model of the
// exact query is a model of the variant, so "unsat" of the variant is a proof.
func abstractArith(q string) (string, bool) {
	if !arithFnRe.MatchString(q) {
		return "", false
	}
	lines := strings.Split(q, "\n")
	var out []string
	apps := map[string][3]string{}
	var order []string
	var walk func(n *sx)
	walk = func(n *sx) {
		if n.list == nil {
			return
		}
		if h := n.head(); len(n.list) == 3 && arithFnRe.MatchString(h) && strings.HasPrefix(h, "pvc_") && !hasBound(n) {
			k := n.String()
			if _, ok := apps[k]; !ok {
				apps[k] = [3]string{h, n.list[1].String(), n.list[2].String()}
				order = append(order, k)
			}
		}
		for _, c := range n.list {
			walk(c)
		}
	}
	insertAt := -1
	for _, l := range lines {
		if strings.HasPrefix(l, "(define-fun pvc_urem_") || strings.HasPrefix(l, "(define-fun pvc_udiv_") ||
			strings.HasPrefix(l, "(define-fun pvc_srem_") || strings.HasPrefix(l, "(define-fun pvc_sdiv_") {
			m := arithFnRe.FindStringSubmatch(l)
			out = append(out, fmt.Sprintf("(declare-fun %s ((_ BitVec %s) (_ BitVec %s)) (_ BitVec %s))", m[0], m[2], m[2], m[2]))
			continue
		}
		if strings.HasPrefix(l, "(assert ") || strings.HasPrefix(l, "(define-fun ") {
			if arithFnRe.MatchString(l) {
				walk(parseSx(l))
			}
			if insertAt < 0 && strings.HasPrefix(l, "(assert ") {
				insertAt = len(out)
			}
		}
		out = append(out, l)
	}
	if insertAt < 0 {
		return "", false
	}
	var ax []string
	if len(order) > 40 {
		order = order[:40]
	}
	for i, k := range order {
		a := apps[k]
		mm := arithFnRe.FindStringSubmatch(a[0])
		kind, w := mm[1], mm[2]
		zero := "(_ bv0 " + w + ")"
		switch kind {
		case "urem":
			ax = append(ax, fmt.Sprintf("(assert (=> (not (= %s %s)) (bvult %s %s)))", a[2], zero, k, a[2]))
			ax = append(ax, fmt.Sprintf("(assert (bvule %s %s))", k, a[1]))
		case "udiv":
			ax = append(ax, fmt.Sprintf("(assert (=> (not (= %s %s)) (bvule %s %s)))", a[2], zero, k, a[1]))
		case "srem":
			// for a non-negative dividend and a positive divisor: 0 <= a%b < b and a%b <= a
			ax = append(ax, fmt.Sprintf("(assert (=> (and (bvsle %s %s) (bvslt %s %s)) (and (bvsle %s %s) (bvslt %s %s) (bvsle %s %s))))",
				zero, a[1], zero, a[2], zero, k, k, a[2], k, a[1]))
		case "sdiv":
			ax = append(ax, fmt.Sprintf("(assert (=> (and (bvsle %s %s) (bvslt %s %s)) (and (bvsle %s %s) (bvsle %s %s))))",
				zero, a[1], zero, a[2], zero, k, k, a[1]))
		}
		if kind != "urem" && kind != "srem" {
			continue
		}
		// two dividends less than the divisor apart have different remainders:
		// a < b and b - a < m  ==>  a%m != b%m   (same sign convention as above for srem)
		for _, k2 := range order[i+1:] {
			c := apps[k2]
			if c[0] != a[0] || c[2] != a[2] || c[1] == a[1] {
				continue
			}
			lt, le := "bvult", "bvule"
			if kind == "srem" {
				lt, le = "bvslt", "bvsle"
			}
			for _, pr := range [][2]string{{a[1], c[1]}, {c[1], a[1]}} {
				lo, hi := pr[0], pr[1]
				nonneg := "true"
				if kind == "srem" {
					nonneg = fmt.Sprintf("(and (%s %s %s) (bvslt %s %s))", le, zero, lo, zero, a[2])
				}
				ax = append(ax, fmt.Sprintf("(assert (=> (and %s (%s %s %s) (%s (bvsub %s %s) %s)) (not (= %s %s))))",
					nonneg, lt, lo, hi, lt, hi, lo, a[2], k, k2))
			}
		}
	}
	res := append(append(append([]string{}, out[:insertAt]...), ax...), out[insertAt:]...)
	return strings.Join(res, "\n"), true
}

// BVCmp applies a comparison with constant folding.
func BVCmp(op string, a, b Term) Term {
	w := a.Sort.Width()
	if a.Sort != b.Sort {
		panic(fmt.Sprintf("BVCmp %s: sort mismatch %s:%s vs %s:%s", op, a.S, a.Sort, b.S, b.Sort))
	}
	if a.IsC && b.IsC {
		x, y := a.C, b.C
		sx, sy := sext(x, w), sext(y, w)
		switch op {
		case "bvult":
			return BoolLit(x < y)
		case "bvule":
			return BoolLit(x <= y)
		case "bvugt":
			return BoolLit(x > y)
		case "bvuge":
			return BoolLit(x >= y)
		case "bvslt":
			return BoolLit(sx < sy)
		case "bvsle":
			return BoolLit(sx <= sy)
		case "bvsgt":
			return BoolLit(sx > sy)
		case "bvsge":
			return BoolLit(sx >= sy)
		}
	}
	if a.S == b.S {
		switch op {
		case "bvule", "bvuge", "bvsle", "bvsge":
			return True
		default:
			return False
		}
	}
	return app(SBool, op, a, b)
}

func BVNeg(a Term) Term {
	if a.IsC {
		return BVLit(-a.C, a.Sort.Width())
	}
	return app(a.Sort, "bvneg", a)
}
func BVNot(a Term) Term {
	if a.IsC {
		return BVLit(^a.C, a.Sort.Width())
	}
	return app(a.Sort, "bvnot", a)
}

// Resize converts a bit-vector to width w, sign- or zero-extending.
func Resize(a Term, w int, signed bool) Term {
	aw := a.Sort.Width()
	if aw == w {
		return a
	}
	if a.IsC {
		if w < aw {
			return BVLit(a.C, w)
		}
		if signed {
			return BVLit(uint64(sext(a.C, aw)), w)
		}
		return BVLit(a.C, w)
	}
	if w < aw {
		return Term{S: fmt.Sprintf("((_ extract %d 0) %s)", w-1, a.S), Sort: BV(w)}
	}
	if signed {
		return Term{S: fmt.Sprintf("((_ sign_extend %d) %s)", w-aw, a.S), Sort: BV(w)}
	}
	return Term{S: fmt.Sprintf("((_ zero_extend %d) %s)", w-aw, a.S), Sort: BV(w)}
}

func Select(arr, idx Term) Term {
	return app(arr.Sort.ArrElem(), "select", arr, idx)
}
func Store(arr, idx, v Term) Term {
	if v.Sort != arr.Sort.ArrElem() {
		panic(fmt.Sprintf("Store: elem sort mismatch %s vs %s", v.Sort, arr.Sort.ArrElem()))
	}
	return app(arr.Sort, "store", arr, idx, v)
}

func I64(v int64) Term { return BVLit(uint64(v), 64) }

func Add64(a, b Term) Term { return BVBin("bvadd", a, b) }
func Sub64(a, b Term) Term { return BVBin("bvsub", a, b) }
func Mul64(a, b Term) Term { return BVBin("bvmul", a, b) }
func Sle(a, b Term) Term   { return BVCmp("bvsle", a, b) }
func Slt(a, b Term) Term   { return BVCmp("bvslt", a, b) }
func Ule(a, b Term) Term   { return BVCmp("bvule", a, b) }
func Ult(a, b Term) Term   { return BVCmp("bvult", a, b) }

// ---------------------------------------------------------------------------

type decl struct {
	name string
	args []Sort // nil for constants
	ret  Sort
}

type def struct {
	name string
	sort Sort
	body string
}

// Ctx owns every symbol used while verifying one function.
type Ctx struct {
	sorts   map[string]bool
	decls   []decl
	declIdx map[string]int
	defs    []def
	defIdx  map[string]int
	defByS  map[string]string
	axioms  []namedAxiom // global assumptions (quantified), included when their trigger symbol is used
	n       int
}

type namedAxiom struct {
	name string
	syms []string // included iff all of these symbols appear in the query
	body string
}

func NewCtx() *Ctx {
	c := &Ctx{sorts: map[string]bool{}, declIdx: map[string]int{}, defIdx: map[string]int{}, defByS: map[string]string{}}
	curCtx = c
	return c
}

// curCtx is the context of the function being executed (functions are executed
// one at a time); term constructors use it to look through shared definitions.
var curCtx *Ctx

// expandDef returns the text a shared name ($dN) stands for.
func expandDef(s string) string {
	if curCtx != nil && strings.HasPrefix(s, "$d") {
		if i, ok := curCtx.defIdx[s]; ok {
			return curCtx.defs[i].body
		}
	}
	return s
}

var identSanitizer = regexp.MustCompile(`[^A-Za-z0-9_.$!]`)

func sanitize(s string) string { return identSanitizer.ReplaceAllString(s, "_") }

func (c *Ctx) Fresh(hint string, sort Sort) Term {
	c.n++
	name := fmt.Sprintf("%s!%d", sanitize(hint), c.n)
	c.Declare(name, nil, sort)
	return Term{S: name, Sort: sort}
}

func (c *Ctx) Declare(name string, args []Sort, ret Sort) {
	if _, ok := c.declIdx[name]; ok {
		return
	}
	c.noteSort(ret)
	for _, a := range args {
		c.noteSort(a)
	}
	c.declIdx[name] = len(c.decls)
	c.decls = append(c.decls, decl{name, args, ret})
}

func (c *Ctx) noteSort(s Sort) {
	switch s {
	case SErr, SStr, SBytes, SIface, SFn:
		c.sorts[string(s)] = true
	default:
		if s.IsArr() {
			c.noteSort(s.ArrElem())
		}
	}
}

// Const returns a named constant, declaring it on first use.
func (c *Ctx) Const(name string, sort Sort) Term {
	name = sanitize(name)
	c.Declare(name, nil, sort)
	return Term{S: name, Sort: sort}
}

// UF applies an uninterpreted function, declaring it on first use.
func (c *Ctx) UF(name string, ret Sort, args ...Term) Term {
	name = sanitize(name)
	var as []Sort
	for _, a := range args {
		as = append(as, a.Sort)
	}
	c.Declare(name, as, ret)
	if len(args) == 0 {
		return Term{S: name, Sort: ret}
	}
	return app(ret, name, args...)
}

// Share gives a large term a name so later terms that contain it stay small.
func (c *Ctx) Share(t Term) Term {
	if t.IsC || len(t.S) < 48 || strings.Contains(t.S, "?") {
		return t
	}
	if n, ok := c.defByS[t.S]; ok {
		return Term{S: n, Sort: t.Sort}
	}
	c.n++
	name := fmt.Sprintf("$d%d", c.n)
	c.noteSort(t.Sort)
	c.defIdx[name] = len(c.defs)
	c.defs = append(c.defs, def{name, t.Sort, t.S})
	c.defByS[t.S] = name
	return Term{S: name, Sort: t.Sort}
}

func (c *Ctx) AddAxiom(name string, syms []string, body string) {
	for _, a := range c.axioms {
		if a.name == name {
			return
		}
	}
	c.axioms = append(c.axioms, namedAxiom{name, syms, body})
}

var symRe = regexp.MustCompile(`[A-Za-z_$][A-Za-z0-9_.$!]*`)

// Query modes: raw leaves quantifiers to the solver; QInst adds ground instances
// and Skolem constants (see instantiate.go) and keeps the quantifiers; QLite
// adds instances and drops every remaining quantifier (weaker, still sound).
const (
	QRaw = iota
	QInst
	QLite
)

// Query renders a complete SMT-LIB script: hyps ∧ ¬goal (or hyps ∧ goal when
// expecting sat for cover checks).
func (c *Ctx) Query(hyps []Term, goal Term, negate bool) string {
	return c.QueryOpt(hyps, goal, negate, QRaw)
}

func (c *Ctx) QueryOpt(hyps []Term, goal Term, negate bool, mode int) string {
	used := map[string]bool{}
	var work []string
	scan := func(s string) {
		for _, m := range symRe.FindAllString(s, -1) {
			if !used[m] {
				used[m] = true
				work = append(work, m)
			}
		}
	}
	for _, h := range hyps {
		scan(h.S)
	}
	scan(goal.S)
	axUsed := map[int]bool{}
	for {
		for len(work) > 0 {
			s := work[len(work)-1]
			work = work[:len(work)-1]
			if i, ok := c.defIdx[s]; ok {
				scan(c.defs[i].body)
			}
		}
		progress := false
		for i, a := range c.axioms {
			if axUsed[i] {
				continue
			}
			if mode == QLite && strings.Contains(a.body, "(forall ") && strings.Contains(a.body, "Fn)") {
				// comparer axioms quantify over an uninterpreted sort: cannot be instantiated here
			}
			all := true
			for _, s := range a.syms {
				if !used[s] {
					all = false
					break
				}
			}
			if all {
				axUsed[i] = true
				scan(a.body)
				progress = true
			}
		}
		if !progress && len(work) == 0 {
			break
		}
	}
	var asserts []string
	var comments []string
	// axioms over uninterpreted sorts are kept verbatim; facts named "pre:..." (e.g. the
	// congruence of checksum functions) go through quantifier preprocessing like hypotheses
	for i, a := range c.axioms {
		if axUsed[i] && !strings.HasPrefix(a.name, "pre:") {
			asserts = append(asserts, a.body)
			comments = append(comments, " ; axiom "+a.name)
		}
	}
	nAx := len(asserts)
	for i, a := range c.axioms {
		if axUsed[i] && strings.HasPrefix(a.name, "pre:") {
			asserts = append(asserts, a.body)
			comments = append(comments, " ; fact "+a.name)
		}
	}
	for _, h := range hyps {
		if h.IsC && h.C != 0 {
			continue
		}
		asserts = append(asserts, h.S)
		comments = append(comments, "")
	}
	if negate {
		asserts = append(asserts, "(not "+goal.S+")")
	} else {
		asserts = append(asserts, goal.S)
	}
	comments = append(comments, " ; goal")
	var extra []decl
	if mode != QRaw && negate {
		usedDefs := map[string]string{}
		for _, d := range c.defs {
			if used[d.name] {
				usedDefs[d.name] = d.body
			}
		}
		// axioms over uninterpreted sorts are kept verbatim (never instantiated or dropped)
		pre, sk := c.Preprocess(asserts[nAx:], usedDefs, mode == QLite)
		asserts = append(asserts[:nAx:nAx], pre...)
		extra = sk
	}
	var b strings.Builder
	b.WriteString("(set-logic ALL)\n")
	{
		var all strings.Builder
		for _, a := range asserts {
			all.WriteString(a)
		}
		for _, d := range c.defs {
			if used[d.name] {
				all.WriteString(d.body)
			}
		}
		b.WriteString(arithDefs(all.String()))
	}
	var sorts []string
	for s := range c.sorts {
		sorts = append(sorts, s)
	}
	sort.Strings(sorts)
	for _, s := range sorts {
		fmt.Fprintf(&b, "(declare-sort %s 0)\n", s)
	}
	for _, d := range c.decls {
		if !used[d.name] {
			continue
		}
		if d.args == nil {
			fmt.Fprintf(&b, "(declare-fun %s () %s)\n", d.name, d.ret)
		} else {
			var as []string
			for _, a := range d.args {
				as = append(as, string(a))
			}
			fmt.Fprintf(&b, "(declare-fun %s (%s) %s)\n", d.name, strings.Join(as, " "), d.ret)
		}
	}
	for _, d := range extra {
		fmt.Fprintf(&b, "(declare-fun %s () %s)\n", d.name, d.ret)
	}
	for _, d := range c.defs {
		if used[d.name] {
			fmt.Fprintf(&b, "(define-fun %s () %s %s)\n", d.name, d.sort, d.body)
		}
	}
	for i, a := range asserts {
		if a == "true" {
			continue
		}
		cm := ""
		if i < len(comments) {
			cm = comments[i]
		}
		fmt.Fprintf(&b, "(assert %s)%s\n", a, cm)
	}
	b.WriteString("(check-sat)\n")
	return b.String()
}

// ModelSymbols lists the declared constants a query mentions (for get-value).
func (c *Ctx) ModelSymbols(q string) []string {
	used := map[string]bool{}
	for _, m := range symRe.FindAllString(q, -1) {
		used[m] = true
	}
	var out []string
	for _, d := range c.decls {
		if d.args == nil && used[d.name] && (d.ret.IsBV() || d.ret == SBool) {
			out = append(out, d.name)
		}
	}
	return out
}

// Slice returns the hypotheses in the cone of influence of the goal: those that share a
// declared symbol, directly or through other kept hypotheses, with the goal. Dropping
// hypotheses only weakens the antecedent, so "unsat" for the sliced query is a proof of
// the full one. Constants of the theory and shared definitions are looked through.
func (c *Ctx) Slice(hyps []Term, goal Term) []Term {
	memo := map[string]map[string]bool{}
	var symsOf func(s string, depth int) map[string]bool
	symsOf = func(s string, depth int) map[string]bool {
		out := map[string]bool{}
		for _, m := range symRe.FindAllString(s, -1) {
			if i, ok := c.defIdx[m]; ok {
				sub, done := memo[m]
				if !done {
					memo[m] = map[string]bool{} // cycle guard (definitions are acyclic)
					sub = symsOf(c.defs[i].body, depth+1)
					memo[m] = sub
				}
				for k := range sub {
					out[k] = true
				}
				continue
			}
			if _, ok := c.declIdx[m]; ok {
				out[m] = true
			}
		}
		return out
	}
	hs := make([]map[string]bool, len(hyps))
	for i, h := range hyps {
		hs[i] = symsOf(h.S, 0)
	}
	cone := symsOf(goal.S, 0)
	keep := make([]bool, len(hyps))
	for changed := true; changed; {
		changed = false
		for i := range hyps {
			if keep[i] {
				continue
			}
			if len(hs[i]) == 0 {
				// a ground fact (possibly "false"): always kept
				keep[i] = true
				changed = true
				continue
			}
			for k := range hs[i] {
				if cone[k] {
					keep[i] = true
					break
				}
			}
			if keep[i] {
				changed = true
				for k := range hs[i] {
					cone[k] = true
				}
			}
		}
	}
	var out []Term
	for i, h := range hyps {
		if keep[i] {
			out = append(out, h)
		}
	}
	return out
}
