package main

// Quantifier pre-processing for the queries the engine emits: Skolemisation of
// existentials in positive position and ground instantiation of universals over
// the index terms that occur in the query (the array-property-fragment recipe of
// Bradley/Manna). The transformations only weaken assertions of a refutation
// query (or keep them equivalent), so "unsat" remains a proof.

import (
	"fmt"
	"sort"
	"strings"
)

type sx struct {
	atom string
	list []*sx
}

func (n *sx) isAtom() bool { return n.list == nil && n.atom != "" }

func (n *sx) String() string {
	var b strings.Builder
	n.write(&b)
	return b.String()
}

func (n *sx) write(b *strings.Builder) {
	if n.list == nil {
		b.WriteString(n.atom)
		return
	}
	b.WriteByte('(')
	for i, c := range n.list {
		if i > 0 {
			b.WriteByte(' ')
		}
		c.write(b)
	}
	b.WriteByte(')')
}

func parseSx(s string) *sx {
	pos := 0
	var parse func() *sx
	parse = func() *sx {
		for pos < len(s) && (s[pos] == ' ' || s[pos] == '\n' || s[pos] == '\t') {
			pos++
		}
		if pos >= len(s) {
			return nil
		}
		if s[pos] == '(' {
			pos++
			n := &sx{list: []*sx{}}
			for {
				for pos < len(s) && (s[pos] == ' ' || s[pos] == '\n' || s[pos] == '\t') {
					pos++
				}
				if pos >= len(s) {
					return n
				}
				if s[pos] == ')' {
					pos++
					return n
				}
				c := parse()
				if c == nil {
					return n
				}
				n.list = append(n.list, c)
			}
		}
		start := pos
		for pos < len(s) && s[pos] != ' ' && s[pos] != '(' && s[pos] != ')' && s[pos] != '\n' && s[pos] != '\t' {
			pos++
		}
		return &sx{atom: s[start:pos]}
	}
	return parse()
}

func (n *sx) head() string {
	if n.list != nil && len(n.list) > 0 && n.list[0].isAtom() {
		return n.list[0].atom
	}
	return ""
}

func isQuant(n *sx) bool {
	h := n.head()
	return (h == "forall" || h == "exists") && len(n.list) == 3
}

// subst replaces atoms per m (bound variables have unique names, no capture).
func (n *sx) subst(m map[string]*sx) *sx {
	if n.list == nil {
		if r, ok := m[n.atom]; ok {
			return r
		}
		return n
	}
	out := &sx{list: make([]*sx, len(n.list))}
	changed := false
	for i, c := range n.list {
		out.list[i] = c.subst(m)
		if out.list[i] != c {
			changed = true
		}
	}
	if !changed {
		return n
	}
	return out
}

func hasQuant(n *sx) bool {
	if n.list == nil {
		return false
	}
	if isQuant(n) {
		return true
	}
	for _, c := range n.list {
		if hasQuant(c) {
			return true
		}
	}
	return false
}

type instCtx struct {
	c        *Ctx
	skolems  []decl
	cands    []*sx // candidate instantiation terms of sort BV64
	candSet  map[string]bool
	dropQ    bool // lite mode: drop the quantifier after instantiating
	nSk      int
	maxInst  int
	instDone int
}

const bv64Sort = "(_ BitVec 64)"

// process rewrites a formula in the given polarity (true = asserted positively).
// underForall > 0 means bound variables of an enclosing universal are in scope
// (no Skolemisation there).
func (ic *instCtx) process(n *sx, pos bool, bound int, instantiate bool) *sx {
	if n.list == nil || !hasQuant(n) {
		return n
	}
	h := n.head()
	switch h {
	case "and", "or":
		out := &sx{list: []*sx{n.list[0]}}
		for _, c := range n.list[1:] {
			out.list = append(out.list, ic.process(c, pos, bound, instantiate))
		}
		return out
	case "not":
		return &sx{list: []*sx{n.list[0], ic.process(n.list[1], !pos, bound, instantiate)}}
	case "=>":
		out := &sx{list: []*sx{n.list[0]}}
		for i, c := range n.list[1:] {
			if i < len(n.list)-2 {
				out.list = append(out.list, ic.process(c, !pos, bound, instantiate))
			} else {
				out.list = append(out.list, ic.process(c, pos, bound, instantiate))
			}
		}
		return out
	case "ite":
		if len(n.list) == 4 && !hasQuant(n.list[1]) {
			return &sx{list: []*sx{n.list[0], n.list[1], ic.process(n.list[2], pos, bound, instantiate), ic.process(n.list[3], pos, bound, instantiate)}}
		}
		return n
	case "forall", "exists":
		if !isQuant(n) {
			return n
		}
		universal := (h == "forall") == pos
		vars := n.list[1].list
		body := n.list[2]
		if !universal {
			if bound > 0 {
				return n
			}
			// Skolemise
			m := map[string]*sx{}
			for _, v := range vars {
				ic.nSk++
				name := fmt.Sprintf("sk!%s!%d", strings.ReplaceAll(v.list[0].atom, "?", "_"), ic.nSk)
				ic.skolems = append(ic.skolems, decl{name: name, ret: Sort(v.list[1].String())})
				sk := &sx{atom: name}
				m[v.list[0].atom] = sk
				if v.list[1].String() == bv64Sort {
					ic.addCand(sk)
				}
			}
			return ic.process(body.subst(m), pos, bound, instantiate)
		}
		// universal
		if !instantiate {
			return n
		}
		var bvVars []string
		var rest []*sx
		for _, v := range vars {
			if v.list[1].String() == bv64Sort {
				bvVars = append(bvVars, v.list[0].atom)
			} else {
				rest = append(rest, v)
			}
		}
		var insts []*sx
		if len(bvVars) > 0 && len(ic.cands) > 0 && bound == 0 {
			tuples := ic.tuples(len(bvVars))
			for _, tp := range tuples {
				m := map[string]*sx{}
				for i, v := range bvVars {
					m[v] = tp[i]
				}
				inst := body.subst(m)
				if len(rest) > 0 {
					inst = &sx{list: []*sx{n.list[0], {list: rest}, inst}}
					// still quantified over the other variables: keep as is
				} else {
					inst = ic.process(inst, pos, bound, false)
				}
				insts = append(insts, inst)
			}
		}
		if len(insts) == 0 {
			if ic.dropQ {
				// cannot instantiate: weaken to true (positive) / false (negative)
				if pos {
					return &sx{atom: "true"}
				}
				return &sx{atom: "false"}
			}
			return n
		}
		op := "and"
		if !pos {
			op = "or"
		}
		out := &sx{list: []*sx{{atom: op}}}
		if !ic.dropQ {
			out.list = append(out.list, n)
		}
		out.list = append(out.list, insts...)
		if len(out.list) == 2 {
			return out.list[1]
		}
		return out
	}
	// quantifier under an operator of mixed polarity (=, xor, distinct, ...): leave
	if ic.dropQ {
		return ic.eraseMixed(n, pos)
	}
	return n
}

// eraseMixed handles a subformula with quantifiers under a mixed-polarity
// operator in lite mode: the whole subformula is weakened away.
func (ic *instCtx) eraseMixed(n *sx, pos bool) *sx {
	if pos {
		return &sx{atom: "true"}
	}
	return &sx{atom: "false"}
}

func (ic *instCtx) addCand(t *sx) {
	s := t.String()
	if ic.candSet[s] {
		return
	}
	ic.candSet[s] = true
	ic.cands = append(ic.cands, t)
}

func (ic *instCtx) tuples(k int) [][]*sx {
	n := len(ic.cands)
	total := 1
	for i := 0; i < k; i++ {
		total *= n
		if total > ic.maxInst {
			break
		}
	}
	cands := ic.cands
	for total > ic.maxInst && len(cands) > 1 {
		cands = cands[:len(cands)-1]
		total = 1
		for i := 0; i < k; i++ {
			total *= len(cands)
		}
	}
	var out [][]*sx
	var rec func(cur []*sx)
	rec = func(cur []*sx) {
		if len(cur) == k {
			out = append(out, append([]*sx(nil), cur...))
			return
		}
		for _, c := range cands {
			rec(append(cur, c))
		}
	}
	rec(nil)
	return out
}

// collectCands finds index terms: X in (select A (bvadd B X)) and (select A X),
// resolving shared definitions; bound variables (containing '?') are skipped.
func (ic *instCtx) collectCands(n *sx, defs map[string]*sx, seen map[string]bool) {
	if n.list == nil {
		if d, ok := defs[n.atom]; ok && !seen[n.atom] {
			seen[n.atom] = true
			ic.collectCands(d, defs, seen)
		}
		return
	}
	if n.head() == "select" && len(n.list) == 3 {
		idx := n.list[2]
		for idx.isAtom() {
			d, ok := defs[idx.atom]
			if !ok {
				break
			}
			idx = d
		}
		if idx.head() == "bvadd" && len(idx.list) == 3 {
			x := idx.list[2]
			if !strings.Contains(x.String(), "?") {
				ic.addCand(x)
			}
			// nested base: (bvadd (bvadd p a) b) also suggests a
			b := idx.list[1]
			for b.isAtom() {
				d, ok := defs[b.atom]
				if !ok {
					break
				}
				b = d
			}
			if b.head() == "bvadd" && len(b.list) == 3 && !strings.Contains(b.list[2].String(), "?") {
				ic.addCand(b.list[2])
			}
		}
	}
	for _, c := range n.list {
		ic.collectCands(c, defs, seen)
	}
}

// Preprocess turns the assertions of a refutation query into (possibly weaker)
// assertions with Skolem constants and ground instances. Returned are the new
// assertion strings and extra declarations.
func (c *Ctx) Preprocess(asserts []string, usedDefs map[string]string, lite bool) ([]string, []decl) {
	ic := &instCtx{c: c, candSet: map[string]bool{}, dropQ: lite, maxInst: 144}
	var trees []*sx
	any := false
	for _, a := range asserts {
		t := parseSx(a)
		trees = append(trees, t)
		if hasQuant(t) {
			any = true
		}
	}
	if !any {
		return asserts, nil
	}
	defs := map[string]*sx{}
	for name, body := range usedDefs {
		defs[name] = parseSx(body)
	}
	// pass 1: Skolemise
	for i, t := range trees {
		trees[i] = ic.process(t, true, 0, false)
	}
	// candidates
	ic.addCand(&sx{atom: "(_ bv0 64)"})
	seen := map[string]bool{}
	for _, t := range trees {
		ic.collectCands(t, defs, seen)
	}
	names := make([]string, 0, len(defs))
	for n := range defs {
		names = append(names, n)
	}
	sort.Strings(names)
	for _, n := range names {
		if !seen[n] {
			seen[n] = true
			ic.collectCands(defs[n], defs, seen)
		}
	}
	// pass 2: instantiate
	for i, t := range trees {
		trees[i] = ic.process(t, true, 0, true)
	}
	out := make([]string, len(trees))
	for i, t := range trees {
		out[i] = t.String()
	}
	return out, ic.skolems
}
