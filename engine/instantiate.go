package main

// Quantifier pre-processing for the queries the engine emits: Skolemisation of
// existentials in positive position and ground instantiation of universals by
// matching the array reads in their bodies against the array reads that occur
// in the rest of the query (E-matching on select patterns, done here because
// the solvers' own matching is defeated by bit-vector address arithmetic and by
// simplifications such as p+0 = p). The transformations only weaken assertions
// of a refutation query (or keep them equivalent), so "unsat" remains a proof.

import (
	"fmt"
	"sort"
	"strings"
)

type sx struct {
	atom string
	list []*sx
	str  string // cached rendering
}

func (n *sx) isAtom() bool { return n.list == nil && n.atom != "" }

func (n *sx) String() string {
	if n.list == nil {
		return n.atom
	}
	if n.str != "" {
		return n.str
	}
	var b strings.Builder
	n.write(&b)
	n.str = b.String()
	return n.str
}

func (n *sx) write(b *strings.Builder) {
	if n.list == nil {
		b.WriteString(n.atom)
		return
	}
	if n.str != "" {
		b.WriteString(n.str)
		return
	}
	b.WriteByte('(')
	for i, c := range n.list {
		if i > 0 {
			b.WriteByte(' ')
		}
		c.write(b)
	}
	b.WriteByte(')')
}

func parseSx(s string) *sx {
	pos := 0
	var parse func() *sx
	parse = func() *sx {
		for pos < len(s) && (s[pos] == ' ' || s[pos] == '\n' || s[pos] == '\t') {
			pos++
		}
		if pos >= len(s) {
			return nil
		}
		if s[pos] == '(' {
			pos++
			n := &sx{list: []*sx{}}
			for {
				for pos < len(s) && (s[pos] == ' ' || s[pos] == '\n' || s[pos] == '\t') {
					pos++
				}
				if pos >= len(s) {
					return n
				}
				if s[pos] == ')' {
					pos++
					return n
				}
				c := parse()
				if c == nil {
					return n
				}
				n.list = append(n.list, c)
			}
		}
		start := pos
		for pos < len(s) && s[pos] != ' ' && s[pos] != '(' && s[pos] != ')' && s[pos] != '\n' && s[pos] != '\t' {
			pos++
		}
		return &sx{atom: s[start:pos]}
	}
	return parse()
}

func (n *sx) head() string {
	if n.list != nil && len(n.list) > 0 && n.list[0].isAtom() {
		return n.list[0].atom
	}
	return ""
}

func isQuant(n *sx) bool {
	h := n.head()
	return (h == "forall" || h == "exists") && len(n.list) == 3
}

// subst replaces atoms per m (bound variables have unique names, no capture).
func (n *sx) subst(m map[string]*sx) *sx {
	if n.list == nil {
		if r, ok := m[n.atom]; ok {
			return r
		}
		return n
	}
	out := &sx{list: make([]*sx, len(n.list))}
	changed := false
	for i, c := range n.list {
		out.list[i] = c.subst(m)
		if out.list[i] != c {
			changed = true
		}
	}
	if !changed {
		return n
	}
	return out
}

func hasQuant(n *sx) bool {
	if n.list == nil {
		return false
	}
	if isQuant(n) {
		return true
	}
	for _, c := range n.list {
		if hasQuant(c) {
			return true
		}
	}
	return false
}

func hasBound(n *sx) bool {
	if n.list == nil {
		return strings.Contains(n.atom, "?")
	}
	for _, c := range n.list {
		if hasBound(c) {
			return true
		}
	}
	return false
}

type instCtx struct {
	c       *Ctx
	defs    map[string]*sx
	skolems []decl
	dropQ   bool // lite mode: drop the quantifier after instantiating
	nSk     int
	maxInst int
	// ground array reads: canonical array -> canonical index -> index term
	reads     map[string]map[string]*sx
	fallback  []*sx // Skolem constants and zero: used for variables without a read pattern
	fbSet     map[string]bool
	canonMem  map[*sx]string
	atomCanon map[string]string
	intern    map[string]string
	varSort   map[string]string
	otherSort map[string][]*sx // Skolem constants of bit-vector sorts other than 64 bits
	nReads    int
}

const bv64Sort = "(_ BitVec 64)"

// canon gives a term a canonical identity with definitions expanded, so that
// syntactically different spellings of the same term compare equal. Identities
// are interned bottom-up (hash-consing), which keeps them small even though the
// memory terms are DAGs that would be exponential when written out.
func (ic *instCtx) canon(n *sx) string {
	if s, ok := ic.canonMem[n]; ok {
		return s
	}
	s := ic.canonOf(n, 0)
	ic.canonMem[n] = s
	return s
}

func (ic *instCtx) canonOf(n *sx, depth int) string {
	if n.list == nil {
		if id, ok := ic.atomCanon[n.atom]; ok {
			return id
		}
		if d, ok := ic.defs[n.atom]; ok && depth < 200 {
			id := ic.canonOf(d, depth+1)
			ic.atomCanon[n.atom] = id
			return id
		}
		return n.atom
	}
	if s, ok := ic.canonMem[n]; ok {
		return s
	}
	var b strings.Builder
	b.WriteByte('(')
	for i, c := range n.list {
		if i > 0 {
			b.WriteByte(' ')
		}
		b.WriteString(ic.canonOf(c, depth+1))
	}
	b.WriteByte(')')
	key := b.String()
	id, ok := ic.intern[key]
	if !ok {
		if len(key) <= 40 {
			id = key
		} else {
			id = fmt.Sprintf("#%d", len(ic.intern))
		}
		ic.intern[key] = id
	}
	ic.canonMem[n] = id
	return id
}

func (ic *instCtx) resolve(n *sx) *sx {
	for i := 0; i < 40 && n.isAtom(); i++ {
		d, ok := ic.defs[n.atom]
		if !ok {
			break
		}
		n = d
	}
	return n
}

// isOuterMem reports whether an array term is a region-indexed (outer) memory:
// its selects are indexed by region identifiers, not by offsets.
func (ic *instCtx) isOuterMem(n *sx, depth int) bool {
	if depth > 60 {
		return false
	}
	if n.isAtom() {
		if strings.HasPrefix(n.atom, "mem$") {
			return true
		}
		if d, ok := ic.defs[n.atom]; ok {
			return ic.isOuterMem(d, depth+1)
		}
		return false
	}
	switch n.head() {
	case "store":
		if len(n.list) == 4 {
			return ic.isOuterMem(n.list[1], depth+1)
		}
	case "ite":
		if len(n.list) == 4 {
			return ic.isOuterMem(n.list[2], depth+1)
		}
	}
	return false
}

// addRead records a ground read arr[idx], and the reads it implies through
// store and ite (read-over-write).
func (ic *instCtx) addRead(arr, idx *sx, depth int) {
	if depth > 12 || ic.nReads > 4000 {
		return
	}
	key := ic.canon(arr)
	m := ic.reads[key]
	if m == nil {
		m = map[string]*sx{}
		ic.reads[key] = m
	}
	ik := ic.canon(idx)
	if _, ok := m[ik]; ok {
		return
	}
	m[ik] = idx
	ic.nReads++
	r := ic.resolve(arr)
	switch r.head() {
	case "store":
		if len(r.list) == 4 {
			ic.addRead(r.list[1], idx, depth+1)
		}
	case "ite":
		if len(r.list) == 4 {
			ic.addRead(r.list[2], idx, depth+1)
			ic.addRead(r.list[3], idx, depth+1)
		}
	case "select":
		// inner array obtained from an outer memory: look through stores on the outer memory
		if len(r.list) == 3 {
			outer := ic.resolve(r.list[1])
			switch outer.head() {
			case "store":
				if len(outer.list) == 4 {
					// (select (store M r A) r') is A if r = r', (select M r') otherwise: both are candidates
					ic.addRead(outer.list[3], idx, depth+1)
					ic.addRead(&sx{list: []*sx{{atom: "select"}, outer.list[1], r.list[2]}}, idx, depth+1)
				}
			case "ite":
				if len(outer.list) == 4 {
					ic.addRead(&sx{list: []*sx{{atom: "select"}, outer.list[2], r.list[2]}}, idx, depth+1)
					ic.addRead(&sx{list: []*sx{{atom: "select"}, outer.list[3], r.list[2]}}, idx, depth+1)
				}
			}
		}
	}
}

// collectReads finds the ground reads of a term (bound variables excluded).
func (ic *instCtx) collectReads(n *sx, seen map[string]bool) {
	if n.list == nil {
		if d, ok := ic.defs[n.atom]; ok && !seen[n.atom] {
			seen[n.atom] = true
			ic.collectReads(d, seen)
		}
		return
	}
	if isQuant(n) {
		return // reads under a binder are patterns, not ground terms
	}
	if n.head() == "select" && len(n.list) == 3 && !ic.isOuterMem(n.list[1], 0) {
		if !hasBound(n.list[1]) && !hasBound(n.list[2]) {
			ic.addRead(n.list[1], n.list[2], 0)
		}
	}
	for _, c := range n.list {
		ic.collectReads(c, seen)
	}
}

type pattern struct {
	arr     string // canonical array
	off     string // canonical offset for (bvadd OFF v); "" for a direct index v
	offTerm *sx
}

// summands flattens nested bvadd (definitions expanded one level at a time).
func (ic *instCtx) summands(n *sx, depth int, out *[]*sx) {
	r := ic.resolve(n)
	if r.head() == "bvadd" && depth < 8 {
		for _, c := range r.list[1:] {
			ic.summands(c, depth+1, out)
		}
		return
	}
	*out = append(*out, n)
}

// minusSummands returns idx - off when every summand of off occurs among the
// summands of idx (so the result is a sum of the remaining summands).
func (ic *instCtx) minusSummands(idx, off *sx) (*sx, bool) {
	if off == nil {
		return nil, false
	}
	var is, os []*sx
	ic.summands(idx, 0, &is)
	ic.summands(off, 0, &os)
	if len(is) < 2 || len(os) >= len(is) {
		return nil, false
	}
	used := make([]bool, len(is))
	for _, o := range os {
		ko := ic.canon(o)
		found := false
		for j, it := range is {
			if !used[j] && ic.canon(it) == ko {
				used[j], found = true, true
				break
			}
		}
		if !found {
			return nil, false
		}
	}
	var rest []*sx
	for j, it := range is {
		if !used[j] {
			rest = append(rest, it)
		}
	}
	if len(rest) == 0 {
		return &sx{atom: "(_ bv0 64)"}, true
	}
	acc := rest[0]
	for _, t := range rest[1:] {
		acc = &sx{list: []*sx{{atom: "bvadd"}, acc, t}}
	}
	return acc, true
}

// patterns lists the read patterns of variable v in a quantifier body.
func (ic *instCtx) patterns(body *sx, v string, out *[]pattern) {
	if body.list == nil {
		return
	}
	if body.head() == "select" && len(body.list) == 3 && !ic.isOuterMem(body.list[1], 0) && !hasBound(body.list[1]) {
		idx := body.list[2]
		if idx.isAtom() && idx.atom == v {
			*out = append(*out, pattern{arr: ic.canon(body.list[1])})
		} else if idx.head() == "bvadd" && len(idx.list) == 3 {
			a, b := idx.list[1], idx.list[2]
			if b.isAtom() && b.atom == v && !hasBound(a) {
				*out = append(*out, pattern{arr: ic.canon(body.list[1]), off: ic.canon(a), offTerm: a})
			} else if a.isAtom() && a.atom == v && !hasBound(b) {
				*out = append(*out, pattern{arr: ic.canon(body.list[1]), off: ic.canon(b), offTerm: b})
			}
		}
	}
	for _, c := range body.list {
		ic.patterns(c, v, out)
	}
}

// equated lists ground terms T such that the body contains (= v T) or (= T v).
func (ic *instCtx) equated(body *sx, v string, out *[]*sx) {
	if body.list == nil {
		return
	}
	if body.head() == "=" && len(body.list) == 3 {
		a, b := body.list[1], body.list[2]
		if a.isAtom() && a.atom == v && !hasBound(b) {
			*out = append(*out, b)
		} else if b.isAtom() && b.atom == v && !hasBound(a) {
			*out = append(*out, a)
		}
	}
	for _, c := range body.list {
		ic.equated(c, v, out)
	}
}

// candidates returns the instantiation terms for variable v of a quantifier.
func (ic *instCtx) candidates(body *sx, v string) []*sx {
	if srt := ic.varSort[v]; srt != "" && srt != bv64Sort {
		// narrower bit-vector variables (counters, hashes): Skolem constants of that sort,
		// terms the variable is equated with, and zero
		var out []*sx
		out = append(out, ic.otherSort[srt]...)
		var eqs []*sx
		ic.equated(body, v, &eqs)
		out = append(out, eqs...)
		w := strings.TrimSuffix(strings.TrimPrefix(srt, "(_ BitVec "), ")")
		out = append(out, &sx{atom: "(_ bv0 " + w + ")"})
		if len(out) > 8 {
			out = out[:8]
		}
		return out
	}
	var pats []pattern
	ic.patterns(body, v, &pats)
	seen := map[string]bool{}
	var out, late []*sx
	add := func(t *sx) {
		k := ic.canon(t)
		if !seen[k] {
			seen[k] = true
			out = append(out, t)
		}
	}
	for _, p := range pats {
		m := ic.reads[p.arr]
		keys := make([]string, 0, len(m))
		for k := range m {
			keys = append(keys, k)
		}
		sort.Strings(keys)
		for _, k := range keys {
			idx := m[k]
			if p.off == "" {
				add(idx)
				continue
			}
			r := ic.resolve(idx)
			if ic.canon(r) == p.off || k == p.off {
				add(&sx{atom: "(_ bv0 64)"})
				continue
			}
			if r.head() == "bvadd" && len(r.list) == 3 {
				if ic.canon(r.list[1]) == p.off {
					add(r.list[2])
					continue
				} else if ic.canon(r.list[2]) == p.off {
					add(r.list[1])
					continue
				}
			}
			// matching modulo associativity and commutativity of bvadd: the index is
			// OFF + rest when the summands of OFF are among the summands of the index
			if rest, ok := ic.minusSummands(r, p.offTerm); ok {
				add(rest)
			} else if p.offTerm != nil && len(late) < 8 {
				// any other read of the same array is the read at index idx - OFF
				late = append(late, &sx{list: []*sx{{atom: "bvsub"}, idx, p.offTerm}})
			}
		}
	}
	// terms the variable is equated with in the body are natural witnesses
	var eqs []*sx
	ic.equated(body, v, &eqs)
	for _, t := range eqs {
		add(t)
	}
	for _, t := range late {
		add(t)
	}
	if len(pats) == 0 || len(out) == 0 {
		for _, t := range ic.fallback {
			add(t)
		}
	}
	if len(out) > 24 {
		out = out[:24]
	}
	return out
}

func (ic *instCtx) addFallback(t *sx) {
	s := t.String()
	if ic.fbSet[s] {
		return
	}
	ic.fbSet[s] = true
	ic.fallback = append(ic.fallback, t)
}

// process rewrites a formula in the given polarity (true = asserted positively).
// bound > 0 means bound variables of an enclosing universal are in scope (no
// Skolemisation there).
func (ic *instCtx) process(n *sx, pos bool, bound int, instantiate bool) *sx {
	if n.list == nil || !hasQuant(n) {
		return n
	}
	h := n.head()
	switch h {
	case "and", "or":
		out := &sx{list: []*sx{n.list[0]}}
		for _, c := range n.list[1:] {
			out.list = append(out.list, ic.process(c, pos, bound, instantiate))
		}
		return out
	case "not":
		return &sx{list: []*sx{n.list[0], ic.process(n.list[1], !pos, bound, instantiate)}}
	case "=>":
		out := &sx{list: []*sx{n.list[0]}}
		for i, c := range n.list[1:] {
			if i < len(n.list)-2 {
				out.list = append(out.list, ic.process(c, !pos, bound, instantiate))
			} else {
				out.list = append(out.list, ic.process(c, pos, bound, instantiate))
			}
		}
		return out
	case "=":
		// Bool equality with a quantified side: (= A B) is (A => B) and (B => A)
		isBoolish := func(t *sx) bool {
			switch t.head() {
			case "forall", "exists", "and", "or", "not", "=>":
				return true
			}
			return false
		}
		if len(n.list) == 3 && (isBoolish(n.list[1]) || isBoolish(n.list[2])) {
			imp := func(a, b *sx) *sx { return &sx{list: []*sx{{atom: "=>"}, a, b}} }
			both := &sx{list: []*sx{{atom: "and"}, imp(n.list[1], n.list[2]), imp(n.list[2], n.list[1])}}
			return ic.process(both, pos, bound, instantiate)
		}
	case "ite":
		if len(n.list) == 4 && !hasQuant(n.list[1]) {
			return &sx{list: []*sx{n.list[0], n.list[1], ic.process(n.list[2], pos, bound, instantiate), ic.process(n.list[3], pos, bound, instantiate)}}
		}
		return n
	case "forall", "exists":
		if !isQuant(n) {
			return n
		}
		universal := (h == "forall") == pos
		vars := n.list[1].list
		body := n.list[2]
		if !universal {
			if bound > 0 {
				return n
			}
			// Skolemise
			m := map[string]*sx{}
			for _, v := range vars {
				ic.nSk++
				name := fmt.Sprintf("sk!%s!%d", strings.ReplaceAll(v.list[0].atom, "?", "_"), ic.nSk)
				ic.skolems = append(ic.skolems, decl{name: name, ret: Sort(v.list[1].String())})
				sk := &sx{atom: name}
				m[v.list[0].atom] = sk
				if v.list[1].String() == bv64Sort {
					ic.addFallback(sk)
				} else if strings.HasPrefix(v.list[1].String(), "(_ BitVec ") {
					ic.otherSort[v.list[1].String()] = append(ic.otherSort[v.list[1].String()], sk)
				}
			}
			return ic.process(body.subst(m), pos, bound, instantiate)
		}
		// universal
		if !instantiate {
			return n
		}
		var bvVars []string
		var rest []*sx
		for _, v := range vars {
			if strings.HasPrefix(v.list[1].String(), "(_ BitVec ") {
				bvVars = append(bvVars, v.list[0].atom)
				ic.varSort[v.list[0].atom] = v.list[1].String()
			} else {
				rest = append(rest, v)
			}
		}
		var insts []*sx
		if len(bvVars) > 0 && bound == 0 {
			for _, tp := range ic.tuples(body, bvVars) {
				m := map[string]*sx{}
				for i, v := range bvVars {
					m[v] = tp[i]
				}
				inst := body.subst(m)
				if len(rest) > 0 {
					inst = &sx{list: []*sx{n.list[0], {list: rest}, inst}}
				} else {
					inst = ic.process(inst, pos, bound, false)
				}
				insts = append(insts, inst)
			}
		}
		if len(insts) == 0 {
			if ic.dropQ {
				// cannot instantiate: weaken to true (positive) / false (negative)
				if pos {
					return &sx{atom: "true"}
				}
				return &sx{atom: "false"}
			}
			return n
		}
		op := "and"
		if !pos {
			op = "or"
		}
		out := &sx{list: []*sx{{atom: op}}}
		if !ic.dropQ {
			out.list = append(out.list, n)
		}
		out.list = append(out.list, insts...)
		if len(out.list) == 2 {
			return out.list[1]
		}
		return out
	}
	// quantifier under an operator of mixed polarity: leave (or weaken away in lite mode)
	if ic.dropQ {
		if pos {
			return &sx{atom: "true"}
		}
		return &sx{atom: "false"}
	}
	return n
}

// tuples enumerates the instantiation tuples for the bound variables of a body.
func (ic *instCtx) tuples(body *sx, vars []string) [][]*sx {
	k := len(vars)
	sets := make([][]*sx, k)
	for i, v := range vars {
		sets[i] = ic.candidates(body, v)
		if len(sets[i]) == 0 {
			return nil
		}
	}
	for {
		total := 1
		for i := range sets {
			total *= len(sets[i])
		}
		if total <= ic.maxInst {
			break
		}
		big := 0
		for i := range sets {
			if len(sets[i]) > len(sets[big]) {
				big = i
			}
		}
		if len(sets[big]) <= 1 {
			break
		}
		sets[big] = sets[big][:len(sets[big])-1]
	}
	var out [][]*sx
	var rec func(cur []*sx)
	rec = func(cur []*sx) {
		if len(cur) == k {
			out = append(out, append([]*sx(nil), cur...))
			return
		}
		for _, c := range sets[len(cur)] {
			rec(append(cur, c))
		}
	}
	rec(nil)
	return out
}

// Preprocess turns the assertions of a refutation query into (possibly weaker)
// assertions with Skolem constants and ground instances. Returned are the new
// assertion strings and extra declarations.
func (c *Ctx) Preprocess(asserts []string, usedDefs map[string]string, lite bool) ([]string, []decl) {
	ic := &instCtx{c: c, dropQ: lite, maxInst: 64, reads: map[string]map[string]*sx{}, fbSet: map[string]bool{},
		canonMem: map[*sx]string{}, defs: map[string]*sx{}, atomCanon: map[string]string{}, intern: map[string]string{}, varSort: map[string]string{}, otherSort: map[string][]*sx{}}
	var trees []*sx
	any := false
	for _, a := range asserts {
		t := parseSx(a)
		trees = append(trees, t)
		if hasQuant(t) {
			any = true
		}
	}
	if !any {
		return asserts, nil
	}
	for name, body := range usedDefs {
		ic.defs[name] = parseSx(body)
	}
	// constants of narrower bit-vector sorts that occur in the query (hashes, counters,
	// lengths of fixed-width fields) are instantiation candidates for bound variables
	// of their sort, like the Skolem constants
	{
		seenAtom := map[string]bool{}
		var walk func(n *sx)
		walk = func(n *sx) {
			if n.list == nil {
				if seenAtom[n.atom] {
					return
				}
				seenAtom[n.atom] = true
				if i, ok := c.declIdx[n.atom]; ok && len(c.decls[i].args) == 0 {
					if s := c.decls[i].ret; s.IsBV() && string(s) != bv64Sort {
						ic.otherSort[string(s)] = append(ic.otherSort[string(s)], &sx{atom: n.atom})
					}
				}
				return
			}
			for _, ch := range n.list {
				walk(ch)
			}
		}
		for _, t := range trees {
			walk(t)
		}
		for _, d := range ic.defs {
			walk(d)
		}
		for k := range ic.otherSort {
			sort.Slice(ic.otherSort[k], func(i, j int) bool { return ic.otherSort[k][i].atom < ic.otherSort[k][j].atom })
		}
	}
	// pass 1: Skolemise
	for i, t := range trees {
		trees[i] = ic.process(t, true, 0, false)
	}
	ic.addFallback(&sx{atom: "(_ bv0 64)"})
	base := trees
	var result []*sx
	// Instantiation rounds: instances contain new reads (e.g. the source of a copied
	// byte) that are needed to instantiate the facts about older memories.
	for round := 0; round < 3; round++ {
		before := ic.nReads
		seen := map[string]bool{}
		src := base
		if result != nil {
			src = result
		}
		for _, t := range src {
			ic.collectReadsGround(t, seen)
		}
		if round > 0 && ic.nReads == before {
			break
		}
		next := make([]*sx, len(base))
		for i, t := range base {
			next[i] = ic.process(t, true, 0, true)
		}
		result = next
	}
	out := make([]string, len(result))
	for i, t := range result {
		out[i] = t.String()
	}
	return out, ic.skolems
}

// collectReadsGround collects reads from the ground parts of an assertion: it
// descends through connectives and into instances, but not under binders.
func (ic *instCtx) collectReadsGround(n *sx, seen map[string]bool) {
	ic.collectReads(n, seen)
}
