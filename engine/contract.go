package main

// Contract files: /repo/<pkgdir>/zz_verif_contracts.go, comment-only, build tag
// verif. Lines starting with "//@" carry directives; see DESIGN.md 2.3.

import (
	"fmt"
	"os"
	"path/filepath"
	"regexp"
	"strconv"
	"strings"
)

type Directive struct {
	Kind string // requires ensures nopanic nowrap opaque assigns loopinv loopunroll loopdec callback ghostvar oncall beforecall beforereturn assume props mode nonnil
	Expr string // raw expression text (before rewriting)
	// loop directives
	Loop int
	N    int
	// callback
	Name string
	Arg  string
	// call-site directives
	CallText string
	CallOrd  int    // 0 = every occurrence
	Ret      string // "", "nil", "err", "ok"
	Line     int
	Ord      int // ordinal among directives of the same kind in the block (1-based)
	Only     []string // if set: the properties this clause counts for
}

type Block struct {
	Target   string // "func", "funclit"
	Recv     string // "", "T", "*T"
	Name     string
	LitOrd   int
	Props    []string
	Dirs     []*Directive
	File     string
	Line     int
	ID       string // mangled unique id
	GhostVar map[string]string
}

func (b *Block) Key() string {
	k := b.Name
	if b.Recv != "" {
		k = "(" + b.Recv + ")." + b.Name
	}
	if b.Target == "funclit" {
		k += "#" + strconv.Itoa(b.LitOrd)
	}
	return k
}

func (b *Block) Has(kind string) bool {
	for _, d := range b.Dirs {
		if d.Kind == kind {
			return true
		}
	}
	return false
}

func (b *Block) Of(kind string) []*Directive {
	var out []*Directive
	for _, d := range b.Dirs {
		if d.Kind == kind {
			out = append(out, d)
		}
	}
	return out
}

type ContractFile struct {
	Path    string
	Dir     string
	Package string
	Imports []string
	Ghost   []string // verbatim Go code for the synthetic file
	Blocks  []*Block
}

var (
	reFunc    = regexp.MustCompile(`^func\s+(?:\(\s*(\*?\s*[A-Za-z_][A-Za-z0-9_]*)\s*\)\s*)?([A-Za-z_][A-Za-z0-9_]*)\b`)
	reFuncLit = regexp.MustCompile(`^funclit\s+(?:\(\s*(\*?\s*[A-Za-z_][A-Za-z0-9_]*)\s*\)\s*\.\s*)?([A-Za-z_][A-Za-z0-9_]*)\s*#\s*(\d+)`)
	reLoop    = regexp.MustCompile(`^loop\s+(\d+)\s+(invariant|unroll|decreases)\s*(.*)$`)
	reOnCall  = regexp.MustCompile(`^on\s+call\s+(.+?)(?:#(\d+))?(?:\s+returning\s+([A-Za-z_][A-Za-z0-9_.]*))?\s*:\s*([A-Za-z_][A-Za-z0-9_]*)\s*=\s*(.*)$`)
	reOnAssign = regexp.MustCompile(`^on\s+assign\s+(.+?)(?:#(\d+))?\s*:\s*([A-Za-z_][A-Za-z0-9_]*)\s*=\s*(.*)$`)
	reBefCall = regexp.MustCompile(`^before\s+call\s+(.+?)(?:#(\d+))?\s*:\s*assert\s+(.*)$`)
	reBefRet  = regexp.MustCompile(`^before\s+return(?:\s+(nil|err))?\s*:\s*assert\s+(.*)$`)
	reGhost   = regexp.MustCompile(`^ghost\s+var\s+([A-Za-z_][A-Za-z0-9_]*)\s+(\S+)\s*=\s*(.*)$`)
	reCB      = regexp.MustCompile(`^callback\s+(\S+)\s*:\s*(\S+)(?:\s+(.*))?$`)
)

func ParseContractFile(path string) (*ContractFile, error) {
	data, err := os.ReadFile(path)
	if err != nil {
		return nil, err
	}
	cf := &ContractFile{Path: path, Dir: filepath.Dir(path)}
	var cur *Block
	var lastDir *Directive
	inGhost := false
	lines := strings.Split(string(data), "\n")
	for ln, raw := range lines {
		line := strings.TrimSpace(raw)
		if strings.HasPrefix(line, "package ") && cf.Package == "" {
			cf.Package = strings.TrimSpace(strings.TrimPrefix(line, "package "))
			continue
		}
		if !strings.HasPrefix(line, "//@") {
			continue
		}
		body := strings.TrimPrefix(line, "//@")
		if strings.HasPrefix(strings.TrimSpace(body), "|") {
			text := strings.TrimPrefix(strings.TrimSpace(body), "|")
			if inGhost {
				cf.Ghost = append(cf.Ghost, strings.TrimPrefix(text, " "))
			} else if lastDir != nil {
				lastDir.Expr += " " + strings.TrimSpace(text)
			} else {
				return nil, fmt.Errorf("%s:%d: continuation without directive", path, ln+1)
			}
			continue
		}
		text := strings.TrimSpace(body)
		if text == "" {
			continue
		}
		inGhost = false
		switch {
		case strings.HasPrefix(text, "import "):
			cf.Imports = append(cf.Imports, strings.TrimSpace(strings.TrimPrefix(text, "import ")))
			lastDir = nil
			continue
		case text == "ghost" || text == "ghost code":
			inGhost = true
			lastDir = nil
			continue
		}
		if m := reFuncLit.FindStringSubmatch(text); m != nil {
			n, _ := strconv.Atoi(m[3])
			cur = &Block{Target: "funclit", Recv: strings.ReplaceAll(m[1], " ", ""), Name: m[2], LitOrd: n, File: path, Line: ln + 1, GhostVar: map[string]string{}}
			cf.Blocks = append(cf.Blocks, cur)
			lastDir = nil
			continue
		}
		if m := reFunc.FindStringSubmatch(text); m != nil && !strings.HasPrefix(text, "funclit") {
			cur = &Block{Target: "func", Recv: strings.ReplaceAll(m[1], " ", ""), Name: m[2], File: path, Line: ln + 1, GhostVar: map[string]string{}}
			cf.Blocks = append(cf.Blocks, cur)
			lastDir = nil
			continue
		}
		if cur == nil {
			return nil, fmt.Errorf("%s:%d: directive outside a block: %s", path, ln+1, text)
		}
		d := &Directive{Line: ln + 1}
		switch {
		case strings.HasPrefix(text, "props "):
			cur.Props = append(cur.Props, strings.Fields(strings.TrimPrefix(text, "props "))...)
			lastDir = nil
			continue
		case strings.HasPrefix(text, "requires "):
			d.Kind, d.Expr = "requires", strings.TrimPrefix(text, "requires ")
		case strings.HasPrefix(text, "ensures "):
			d.Kind, d.Expr = "ensures", strings.TrimPrefix(text, "ensures ")
			// "ensures @C19 expr": the clause counts only for the listed properties
			if e := strings.TrimSpace(d.Expr); strings.HasPrefix(e, "@") {
				if i := strings.IndexAny(e, " \t"); i > 0 {
					d.Only = strings.Split(strings.TrimPrefix(e[:i], "@"), ",")
					d.Expr = strings.TrimSpace(e[i:])
				}
			}
		case strings.HasPrefix(text, "assume "):
			d.Kind, d.Expr = "assume", strings.TrimPrefix(text, "assume ")
		case text == "nopanic" || text == "nowrap" || text == "opaque" || text == "pure" || text == "trusted" || text == "stepwise":
			d.Kind = text
		case strings.HasPrefix(text, "mode "):
			d.Kind, d.Arg = "mode", strings.TrimSpace(strings.TrimPrefix(text, "mode "))
		case strings.HasPrefix(text, "replay-call "):
			d.Kind, d.Expr = "replaycall", strings.TrimSpace(strings.TrimPrefix(text, "replay-call "))
		case strings.HasPrefix(text, "nonnil "):
			d.Kind, d.Expr = "nonnil", strings.TrimPrefix(text, "nonnil ")
		case strings.HasPrefix(text, "assigns "):
			d.Kind, d.Expr = "assigns", strings.TrimPrefix(text, "assigns ")
		case strings.HasPrefix(text, "mayalias "):
			d.Kind, d.Expr = "mayalias", strings.TrimPrefix(text, "mayalias ")
		case strings.HasPrefix(text, "loop "):
			m := reLoop.FindStringSubmatch(text)
			if m == nil {
				return nil, fmt.Errorf("%s:%d: bad loop directive", path, ln+1)
			}
			d.Loop, _ = strconv.Atoi(m[1])
			switch m[2] {
			case "invariant":
				d.Kind, d.Expr = "loopinv", m[3]
			case "decreases":
				d.Kind, d.Expr = "loopdec", m[3]
			case "unroll":
				d.Kind = "loopunroll"
				d.N, _ = strconv.Atoi(strings.TrimSpace(m[3]))
			}
		case strings.HasPrefix(text, "callback "):
			m := reCB.FindStringSubmatch(text)
			if m == nil {
				return nil, fmt.Errorf("%s:%d: bad callback directive", path, ln+1)
			}
			d.Kind, d.Name, d.Arg, d.Expr = "callback", m[1], m[2], m[3]
		case strings.HasPrefix(text, "ghost var "):
			m := reGhost.FindStringSubmatch(text)
			if m == nil {
				return nil, fmt.Errorf("%s:%d: bad ghost var", path, ln+1)
			}
			d.Kind, d.Name, d.Arg, d.Expr = "ghostvar", m[1], m[2], m[3]
		case strings.HasPrefix(text, "on assign "):
			m := reOnAssign.FindStringSubmatch(text)
			if m == nil {
				return nil, fmt.Errorf("%s:%d: bad on-assign directive", path, ln+1)
			}
			d.Kind, d.CallText, d.Name, d.Expr = "onassign", normCallText(m[1]), m[3], m[4]
			d.CallOrd, _ = strconv.Atoi(m[2])
		case strings.HasPrefix(text, "on call "):
			m := reOnCall.FindStringSubmatch(text)
			if m == nil {
				return nil, fmt.Errorf("%s:%d: bad on-call directive", path, ln+1)
			}
			d.Kind, d.CallText, d.Ret, d.Name, d.Expr = "oncall", normCallText(m[1]), m[3], m[4], m[5]
			d.CallOrd, _ = strconv.Atoi(m[2])
		case strings.HasPrefix(text, "before call "):
			m := reBefCall.FindStringSubmatch(text)
			if m == nil {
				return nil, fmt.Errorf("%s:%d: bad before-call directive", path, ln+1)
			}
			d.Kind, d.CallText, d.Expr = "beforecall", normCallText(m[1]), m[3]
			d.CallOrd, _ = strconv.Atoi(m[2])
		case strings.HasPrefix(text, "havoc call "):
			// the named callee is treated as unknown code here (its syntactic write set is
			// forgotten, its result is unknown): neither inlined nor used by contract, so
			// its preconditions are not obligations of this function
			d.Kind, d.CallText = "havoccall", normCallText(strings.TrimSpace(strings.TrimPrefix(text, "havoc call ")))
		case strings.HasPrefix(text, "clobbers call "):
			// "clobbers call <callee> : <lvalue>, ...": the named call (unknown code that may
			// call back into the module, which the engine otherwise assumes it does not) may
			// change the listed locations; they are forgotten after the call
			rest := strings.TrimPrefix(text, "clobbers call ")
			k := strings.Index(rest, ":")
			if k < 0 {
				return nil, fmt.Errorf("%s:%d: bad clobbers directive", path, ln+1)
			}
			d.Kind, d.CallText, d.Expr = "clobbers", normCallText(strings.TrimSpace(rest[:k])), strings.TrimSpace(rest[k+1:])
		case strings.HasPrefix(text, "appendlike call "):
			// ASSUMPTION (listed in the evidence): the named call follows Go's append idiom
			// func(dst []T, ...) []T: the slice it returns (its first result) lies in the
			// memory of its first argument or in freshly allocated memory
			d.Kind, d.CallText = "appendlike", normCallText(strings.TrimSpace(strings.TrimPrefix(text, "appendlike call ")))
		case strings.HasPrefix(text, "frame call "):
			// ASSUMPTION (listed in the evidence): the named call, which is code outside the
			// engine's view (an interface method of a user-supplied object, say), changes
			// none of the memory this function's contract talks about; its result is unknown
			d.Kind, d.CallText = "framecall", normCallText(strings.TrimSpace(strings.TrimPrefix(text, "frame call ")))
		case strings.HasPrefix(text, "before return"):
			m := reBefRet.FindStringSubmatch(text)
			if m == nil {
				return nil, fmt.Errorf("%s:%d: bad before-return directive", path, ln+1)
			}
			d.Kind, d.Ret, d.Expr = "beforereturn", m[1], m[2]
		default:
			return nil, fmt.Errorf("%s:%d: unknown directive: %s", path, ln+1, text)
		}
		ord := 1
		for _, o := range cur.Dirs {
			if o.Kind == d.Kind {
				ord++
			}
		}
		d.Ord = ord
		cur.Dirs = append(cur.Dirs, d)
		lastDir = d
	}
	for i, b := range cf.Blocks {
		b.ID = fmt.Sprintf("%s_%d", sanitizeGo(b.Key()), i)
		for _, d := range b.Of("ghostvar") {
			b.GhostVar[d.Name] = "pvc_g_" + b.ID + "_" + d.Name
		}
	}
	return cf, nil
}

func normCallText(s string) string { return strings.Join(strings.Fields(s), "") }

var reNonIdent = regexp.MustCompile(`[^A-Za-z0-9_]`)

func sanitizeGo(s string) string { return reNonIdent.ReplaceAllString(s, "_") }

// ---------------------------------------------------------------------------
// Expression rewriting: contract syntax -> plain Go using helper functions
// pvc_implies, pvc_iff, pvc_forall, pvc_exists, pvc_old.

func RewriteExpr(s string) (string, error) {
	s = strings.TrimSpace(s)
	if s == "" {
		return "", fmt.Errorf("empty expression")
	}
	return rewriteGroup(s)
}

// topLevel scans s and calls f at every byte index that is at nesting depth 0
// and outside string/char literals. f returns true to stop.
func topLevel(s string, f func(i int) bool) {
	depth := 0
	for i := 0; i < len(s); i++ {
		c := s[i]
		switch c {
		case '"', '\'', '`':
			q := c
			i++
			for i < len(s) && s[i] != q {
				if s[i] == '\\' && q != '`' {
					i++
				}
				i++
			}
			continue
		case '(', '[', '{':
			depth++
			continue
		case ')', ']', '}':
			depth--
			continue
		}
		if depth == 0 && f(i) {
			return
		}
	}
}

func isIdentByte(c byte) bool {
	return c == '_' || (c >= 'a' && c <= 'z') || (c >= 'A' && c <= 'Z') || (c >= '0' && c <= '9')
}

func keywordAt(s string, i int, kw string) bool {
	if !strings.HasPrefix(s[i:], kw) {
		return false
	}
	if i > 0 && (isIdentByte(s[i-1]) || s[i-1] == '.') {
		return false
	}
	j := i + len(kw)
	return j < len(s) && (s[j] == ' ' || s[j] == '\t')
}

func rewriteGroup(s string) (string, error) {
	s = strings.TrimSpace(s)
	// position of the first top-level quantifier
	q := -1
	topLevel(s, func(i int) bool {
		if keywordAt(s, i, "forall") || keywordAt(s, i, "exists") {
			q = i
			return true
		}
		return false
	})
	limit := len(s)
	if q >= 0 {
		limit = q
	}
	// lowest precedence: <==>
	pos := -1
	topLevel(s[:limit], func(i int) bool {
		if strings.HasPrefix(s[i:], "<==>") {
			pos = i
			return true
		}
		return false
	})
	if pos >= 0 {
		l, err := rewriteGroup(s[:pos])
		if err != nil {
			return "", err
		}
		r, err := rewriteGroup(s[pos+4:])
		if err != nil {
			return "", err
		}
		return "pvc_iff(" + l + ", " + r + ")", nil
	}
	topLevel(s[:limit], func(i int) bool {
		if strings.HasPrefix(s[i:], "==>") && (i == 0 || s[i-1] != '<') {
			pos = i
			return true
		}
		return false
	})
	if pos >= 0 {
		l, err := rewriteGroup(s[:pos])
		if err != nil {
			return "", err
		}
		r, err := rewriteGroup(s[pos+3:])
		if err != nil {
			return "", err
		}
		return "pvc_implies(" + l + ", " + r + ")", nil
	}
	if q >= 0 {
		pre, err := rewriteInner(s[:q])
		if err != nil {
			return "", err
		}
		qs, err := rewriteQuant(s[q:])
		if err != nil {
			return "", err
		}
		return pre + qs, nil
	}
	return rewriteInner(s)
}

func rewriteQuant(s string) (string, error) {
	kw := "forall"
	if strings.HasPrefix(s, "exists") {
		kw = "exists"
	}
	rest := s[len(kw):]
	idx := strings.Index(rest, "::")
	if idx < 0 {
		return "", fmt.Errorf("quantifier without '::' in %q", s)
	}
	vars := strings.TrimSpace(rest[:idx])
	body, err := rewriteGroup(rest[idx+2:])
	if err != nil {
		return "", err
	}
	return fmt.Sprintf("pvc_%s(func(%s) bool { return %s })", kw, vars, body), nil
}

// rewriteInner rewrites the contents of every parenthesised/bracketed group.
func rewriteInner(s string) (string, error) {
	var b strings.Builder
	for i := 0; i < len(s); i++ {
		c := s[i]
		if c == '"' || c == '\'' || c == '`' {
			j := i + 1
			for j < len(s) && s[j] != c {
				if s[j] == '\\' && c != '`' {
					j++
				}
				j++
			}
			if j >= len(s) {
				return "", fmt.Errorf("unterminated literal in %q", s)
			}
			b.WriteString(s[i : j+1])
			i = j
			continue
		}
		if c == '(' || c == '[' || c == '{' {
			// find the matching close
			depth := 0
			j := i
			for ; j < len(s); j++ {
				if s[j] == '(' || s[j] == '[' || s[j] == '{' {
					depth++
				} else if s[j] == ')' || s[j] == ']' || s[j] == '}' {
					depth--
					if depth == 0 {
						break
					}
				}
			}
			if j >= len(s) {
				return "", fmt.Errorf("unbalanced brackets in %q", s)
			}
			inner := s[i+1 : j]
			// split on top-level commas / colons (slices) and rewrite each part
			var parts []string
			var seps []byte
			last := 0
			topLevel(inner, func(k int) bool {
				if inner[k] == ',' || (inner[k] == ':' && c == '[' && !strings.HasPrefix(inner[k:], "::") && (k == 0 || inner[k-1] != ':')) {
					parts = append(parts, inner[last:k])
					seps = append(seps, inner[k])
					last = k + 1
				}
				return false
			})
			parts = append(parts, inner[last:])
			b.WriteByte(c)
			for k, p := range parts {
				if strings.TrimSpace(p) != "" {
					r, err := rewriteGroup(p)
					if err != nil {
						return "", err
					}
					b.WriteString(r)
				}
				if k < len(seps) {
					b.WriteByte(seps[k])
					if seps[k] == ',' {
						b.WriteByte(' ')
					}
				}
			}
			b.WriteByte(s[j])
			i = j
			continue
		}
		b.WriteByte(c)
	}
	return b.String(), nil
}

var reIdent = regexp.MustCompile(`[A-Za-z_][A-Za-z0-9_]*`)

// substIdents replaces whole identifiers (not selector fields) using m.
func substIdents(s string, m map[string]string) string {
	if len(m) == 0 {
		return s
	}
	idx := reIdent.FindAllStringIndex(s, -1)
	var b strings.Builder
	last := 0
	for _, p := range idx {
		name := s[p[0]:p[1]]
		r, ok := m[name]
		if !ok {
			continue
		}
		if p[0] > 0 && s[p[0]-1] == '.' {
			continue
		}
		b.WriteString(s[last:p[0]])
		b.WriteString(r)
		last = p[1]
	}
	b.WriteString(s[last:])
	return b.String()
}

const synthHelpers = `
func pvc_implies(a, b bool) bool { return !a || b }
func pvc_iff(a, b bool) bool     { return a == b }
func pvc_forall[F any](f F) bool { return true }
func pvc_exists[F any](f F) bool { return true }
func pvc_old[T any](x T) T       { return x }
func pvc_assert(b bool)          {}
func pvc_assume(b bool)          {}
func pvc_havoc[T any](x *T)      {}

// pvc_suffix(a, b): a is a tail of b (same memory, same end), or empty.
func pvc_suffix(a, b []byte) bool { return true }

// pvc_same(a, b): the same byte string.
func pvc_same(a, b []byte) bool { return true }

// pvc_samebase(a, b): a and b start at the same address and have the same capacity.
func pvc_samebase[T any](a, b []T) bool { return true }

// pvc_overlap(a, b): a and b may share memory (they lie in the same allocation).
func pvc_overlap[T any](a, b []T) bool { return true }

// pvc_local(s): s is nil/empty-capacity or lives in memory this function allocated
// itself (so it cannot overlap anything that existed when the function was entered).
func pvc_local[T any](s []T) bool { return true }

// pvc_idx names the iteration counter of a range loop that has no index variable.
var pvc_idx int
`
