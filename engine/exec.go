package main

import (
	"fmt"
	"go/ast"
	"go/token"
	"go/types"
	"os"
	"sort"
	"strings"

	"golang.org/x/tools/go/packages"
)

type State struct {
	vars     map[types.Object]Value
	mem      map[string]Term
	pc       []Term
	facts    []Term
	regions  []region
	embSeen  map[string]bool
	memEpoch int
	// privEpoch names the not yet materialised memories of private fields that the
	// foreign calls since then cannot have written (see private.go); fReach /
	// fReachAll accumulate what those calls were handed.
	privEpoch int
	fReach    map[string]bool
	fReachAll bool
	// pend: memories havocked before they were ever materialised, with the epoch of
	// that havoc
	pend map[string]int
}

func newState() *State {
	return &State{vars: map[types.Object]Value{}, mem: map[string]Term{}, embSeen: map[string]bool{}}
}

// assume adds a hypothesis. Quantifier-free ones are path decisions (they take
// part in the conditions of merged values); quantified ones are facts: they hold
// on this path but never become part of a value's ite condition.
func (s *State) assume(t Term) {
	if t.IsC && t.C != 0 {
		return
	}
	if strings.Contains(t.S, "(forall ") || strings.Contains(t.S, "(exists ") {
		s.facts = append(s.facts, t)
		return
	}
	s.pc = append(s.pc, t)
}

func (s *State) hyps() []Term {
	out := make([]Term, 0, len(s.pc)+len(s.facts))
	out = append(out, s.pc...)
	return append(out, s.facts...)
}

func (s *State) fork() *State {
	n := &State{vars: make(map[types.Object]Value, len(s.vars)), mem: make(map[string]Term, len(s.mem)), embSeen: make(map[string]bool, len(s.embSeen)), memEpoch: s.memEpoch}
	for k, v := range s.vars {
		n.vars[k] = v
	}
	for k, v := range s.mem {
		n.mem[k] = v
	}
	for k, v := range s.embSeen {
		n.embSeen[k] = v
	}
	n.pc = append([]Term(nil), s.pc...)
	n.facts = append([]Term(nil), s.facts...)
	n.regions = append([]region(nil), s.regions...)
	n.privEpoch, n.fReachAll = s.privEpoch, s.fReachAll
	if len(s.pend) > 0 {
		n.pend = make(map[string]int, len(s.pend))
		for k, v := range s.pend {
			n.pend[k] = v
		}
	}
	if len(s.fReach) > 0 {
		n.fReach = make(map[string]bool, len(s.fReach))
		for k := range s.fReach {
			n.fReach[k] = true
		}
	}
	return n
}

func (s *State) infeasible() bool {
	for _, p := range s.pc {
		if p.IsC && p.C == 0 {
			return true
		}
	}
	return false
}

type Obligation struct {
	Name      string
	Kind      string
	Func      string
	Hyps      []Term
	Goal      Term
	ExpectSat bool // cover / canary obligations
	Pos       token.Pos
	Text      string // source/contract text for reports
	Run       *runInfo
	CExpr     *CExpr // the contract clause this obligation comes from, if any
	// results
	Result string // proved refuted unknown
	Solver string
	Ms     int64
	Model  map[string]string
	Raw    string
	Query  string
	// candidate counterexample from the quantifier-free weakening (unknown results only)
	CandQuery  string
	CandSolver string
}

type litInfo struct {
	lit  *ast.FuncLit
	id   int
	info *types.Info
	pkg  *packages.Package
}

type loopCtx struct {
	label    string
	isSwitch bool
	breaks   []*State
	conts    []*State
}

type retState struct {
	s    *State
	vals []Value
	pos  token.Pos
}

type deferred struct {
	call *ast.CallExpr
	fr   *Frame
}

type Frame struct {
	fn       *types.Func
	name     string
	contract *Contract // contract whose body this frame executes (nil for plain inlined callees)
	info     *types.Info
	pkg      *packages.Package
	sig      *types.Signature
	results  []*types.Var
	rets     []retState
	defers   []deferred
	loops    []*loopCtx
	parent   *Frame
	isTop    bool
	callOrd  map[string]int
	panicOrd int
	recvIsPtr bool
}

type Exec struct {
	w         *World
	ctx       *Ctx
	sizes     types.Sizes
	opaque    bool
	spec      int
	noObl     int
	top       *Contract
	topName   string
	obls      []*Obligation
	oblNames  map[string]int
	memSorts  map[string]Sort
	leafCache map[string][]leaf
	entry     *State
	abstr     map[string]bool
	inlined   map[string]bool
	trusted   map[string]bool
	assumed   map[string]bool
	stack     []*types.Func
	litIDs    map[*ast.FuncLit]int
	errs      []string
	bound     map[types.Object]Value // quantifier-bound variables
	frameSet  *frameSpec
	paths     int
	escCache  map[ast.Node]map[types.Object]bool
	cbAxioms  map[string]bool
	globals   map[types.Object]Value
	depth     int
	epochs    int
	parts     map[string]goalParts
	allocs    int
	provLost  bool
	// path splitting (see Verify)
	decisions   []bool
	decisionPos int
	curRun      *runInfo
	curCExpr    *CExpr
	seqApps     []seqApp
	defined     map[string]Term // results of dependency functions defined by axioms
}

// decide returns the next decision of the current run; ok is false when the
// number of split points on this path exceeds the budget (the caller merges).
func (x *Exec) decide() (value bool, ok bool) {
	if x.spec > 0 || x.decisionPos >= 5 || x.top.Abstract {
		return false, false
	}
	if x.decisionPos >= len(x.decisions) {
		x.decisions = append(x.decisions, false)
	}
	v := x.decisions[x.decisionPos]
	x.decisionPos++
	return v, true
}

func NewExec(w *World, c *Contract) *Exec {
	x := &Exec{w: w, ctx: NewCtx(), top: c, oblNames: map[string]int{}, memSorts: map[string]Sort{}, leafCache: map[string][]leaf{},
		abstr: map[string]bool{}, inlined: map[string]bool{}, trusted: map[string]bool{}, assumed: map[string]bool{}, litIDs: map[*ast.FuncLit]int{}, bound: map[types.Object]Value{},
		escCache: map[ast.Node]map[types.Object]bool{}, cbAxioms: map[string]bool{}, globals: map[types.Object]Value{}, parts: map[string]goalParts{}}
	x.defined = map[string]Term{}
	x.sizes = types.SizesFor("gc", "amd64")
	x.opaque = c.Opaque
	x.topName = funcDisplayName(c)
	return x
}

func funcDisplayName(c *Contract) string {
	pkg := c.Pkg.Types.Name()
	b := c.Block
	n := pkg + "." + b.Name
	if b.Recv != "" {
		n = pkg + ".(" + b.Recv + ")." + b.Name
	}
	if b.Target == "funclit" {
		n += fmt.Sprintf("#%d", b.LitOrd)
	}
	return n
}

func (x *Exec) oblige(s *State, kind, name string, goal Term, pos token.Pos, text string) {
	if x.noObl > 0 {
		return
	}
	for _, sg := range x.splitGoal(goal, nil, "", 0) {
		full := x.topName + "/" + name + sg.suffix
		x.oblNames[full]++
		if n := x.oblNames[full]; n > 1 {
			full = fmt.Sprintf("%s~%d", full, n)
		}
		hyps := append(s.hyps(), sg.hyps...)
		o := &Obligation{Name: full, Kind: kind, Func: x.topName, Hyps: hyps, Goal: sg.goal, Pos: pos, Text: text, Run: x.curRun, CExpr: x.curCExpr}
		x.obls = append(x.obls, o)
	}
}

func (x *Exec) cover(s *State, name string, extra Term, text string) {
	full := x.topName + "/" + name
	x.oblNames[full]++
	if n := x.oblNames[full]; n > 1 {
		full = fmt.Sprintf("%s~%d", full, n)
	}
	o := &Obligation{Name: full, Kind: "cover", Func: x.topName, Hyps: s.hyps(), Goal: extra, ExpectSat: true, Text: text}
	x.obls = append(x.obls, o)
}

func (x *Exec) note(kind, what string) {
	switch kind {
	case "abstracted":
		x.abstr[what] = true
	case "inlined":
		x.inlined[what] = true
	case "trusted":
		x.trusted[what] = true
	case "assumed":
		x.assumed[what] = true
	}
}

func shortText(s string) string {
	s = strings.Join(strings.Fields(s), " ")
	if len(s) > 60 {
		s = s[:60]
	}
	return s
}

// ---------------------------------------------------------------------------
// merging of states

func (x *Exec) merge(a, b *State) *State {
	if a == nil {
		return b
	}
	if b == nil {
		return a
	}
	k := 0
	for k < len(a.pc) && k < len(b.pc) && a.pc[k].S == b.pc[k].S {
		k++
	}
	ca := x.ctx.Share(And(a.pc[k:]...))
	cb := x.ctx.Share(And(b.pc[k:]...))
	n := &State{vars: map[types.Object]Value{}, mem: map[string]Term{}, embSeen: map[string]bool{}}
	n.pc = append([]Term(nil), a.pc[:k]...)
	n.pc = append(n.pc, Or(ca, cb))
	// facts: the common prefix is kept, the rest is guarded by its branch condition
	fk := 0
	for fk < len(a.facts) && fk < len(b.facts) && a.facts[fk].S == b.facts[fk].S {
		fk++
	}
	if ca.IsC && ca.C != 0 && cb.IsC && cb.C != 0 && (len(a.facts) > fk || len(b.facts) > fk) {
		// two different states that no path decision tells apart: merging them would
		// assert the facts of both
		unsup("merge of states that differ only in quantified facts")
	}
	n.facts = append([]Term(nil), a.facts[:fk]...)
	for _, f := range a.facts[fk:] {
		n.facts = append(n.facts, Implies(ca, f))
	}
	for _, f := range b.facts[fk:] {
		n.facts = append(n.facts, Implies(cb, f))
	}
	for o, va := range a.vars {
		vb, ok := b.vars[o]
		if !ok {
			if debugHavoc && strings.HasPrefix(o.Name(), "pvc_g_") {
				fmt.Fprintln(os.Stderr, "pvc: ghost variable missing on one side of a merge:", o.Name())
			}
			continue
		}
		if va == vb {
			n.vars[o] = va
			continue
		}
		func() {
			defer func() {
				if r := recover(); r != nil {
					if u, ok := r.(unsupported); ok {
						// cannot merge: drop the variable (reads will fail as unsupported)
						if debugHavoc {
							fmt.Fprintln(os.Stderr, "pvc: variable dropped at a merge:", o.Name(), u.msg)
						}
						return
					}
					panic(r)
				}
			}()
			n.vars[o] = x.mergeValue(ca, va, vb)
		}()
	}
	for m, ta := range a.mem {
		if tb, ok := b.mem[m]; ok {
			if ta.S == tb.S {
				n.mem[m] = ta
			} else {
				n.mem[m] = x.ctx.Share(Ite(ca, ta, tb))
			}
		} else {
			init := x.ctx.Const(x.lazyName(b, m), ta.Sort)
			n.mem[m] = x.ctx.Share(Ite(ca, ta, init))
		}
	}
	for m, tb := range b.mem {
		if _, ok := a.mem[m]; !ok {
			init := x.ctx.Const(x.lazyName(a, m), tb.Sort)
			n.mem[m] = x.ctx.Share(Ite(ca, init, tb))
		}
	}
	// regions: keep those known on both sides (by base term)
	seen := map[string]bool{}
	for _, r := range a.regions {
		seen[r.rgn.S] = true
	}
	for _, r := range b.regions {
		if seen[r.rgn.S] {
			n.regions = append(n.regions, r)
		}
	}
	for k := range a.embSeen {
		if b.embSeen[k] {
			n.embSeen[k] = true
		}
	}
	n.memEpoch = a.memEpoch
	if b.memEpoch != a.memEpoch {
		n.memEpoch = x.newEpoch()
	}
	if a.privEpoch == b.privEpoch {
		n.privEpoch = a.privEpoch
		n.fReachAll = a.fReachAll || b.fReachAll
		for _, m := range []map[string]bool{a.fReach, b.fReach} {
			for k := range m {
				if n.fReach == nil {
					n.fReach = map[string]bool{}
				}
				n.fReach[k] = true
			}
		}
	} else {
		n.privEpoch = x.newEpoch()
		n.memEpoch = n.privEpoch
	}
	for _, m := range []map[string]int{a.pend, b.pend} {
		for k := range m {
			ea, eb := a.pend[k], b.pend[k]
			if n.pend == nil {
				n.pend = map[string]int{}
			}
			if ea == eb {
				n.pend[k] = ea
			} else if _, done := n.pend[k]; !done {
				// havocked on one side only (or at different points): not the same memory
				// any more on the merged path
				n.pend[k] = x.newEpoch()
			}
		}
	}
	return n
}

func (x *Exec) mergeAll(ss []*State) *State {
	var out *State
	for _, s := range ss {
		if s == nil || s.infeasible() {
			continue
		}
		out = x.merge(out, s)
	}
	return out
}

// ---------------------------------------------------------------------------
// statements

func (x *Exec) block(s *State, fr *Frame, list []ast.Stmt) *State {
	for _, st := range list {
		if s == nil {
			return nil
		}
		s = x.stmt(s, fr, st)
	}
	return s
}

func (x *Exec) stmt(s *State, fr *Frame, st ast.Stmt) (out *State) {
	if s == nil || s.infeasible() {
		return nil
	}
	if x.top.Abstract {
		spec0, noObl0, entry0 := x.spec, x.noObl, x.entry
		defer func() {
			if r := recover(); r != nil {
				u, ok := r.(unsupported)
				if !ok {
					panic(r)
				}
				// whatever the unwinding skipped: back to the mode we were in
				x.spec, x.noObl, x.entry = spec0, noObl0, entry0
				x.note("abstracted", fmt.Sprintf("statement at %s: %s", x.w.Fset.Position(st.Pos()), u.msg))
				out = x.havocStmt(s, fr, st)
			}
		}()
	}
	switch n := st.(type) {
	case *ast.BlockStmt:
		return x.block(s, fr, n.List)
	case *ast.EmptyStmt:
		return s
	case *ast.ExprStmt:
		x.expr(s, fr, n.X)
		if x.isPanicState(s) {
			return nil
		}
		return s
	case *ast.AssignStmt:
		x.assign(s, fr, n)
		return s
	case *ast.IncDecStmt:
		loc := x.lvalue(s, fr, n.X)
		t := fr.info.TypeOf(n.X)
		cur := x.readLoc(s, loc, t).(*Scalar)
		one := BVLit(1, cur.T.Sort.Width())
		op := "bvadd"
		if n.Tok == token.DEC {
			op = "bvsub"
		}
		res := BVBin(op, cur.T, one)
		x.checkWrap(s, fr, op, cur.T, one, res, t, n.Pos(), exprText(x.w.Fset, n.X)+n.Tok.String())
		x.writeLoc(s, fr, loc, t, &Scalar{T: x.ctx.Share(res)})
		return s
	case *ast.DeclStmt:
		gd, ok := n.Decl.(*ast.GenDecl)
		if !ok {
			unsup("decl stmt")
		}
		if gd.Tok == token.CONST || gd.Tok == token.TYPE {
			return s
		}
		for _, sp := range gd.Specs {
			vs := sp.(*ast.ValueSpec)
			for i, id := range vs.Names {
				obj := fr.info.Defs[id]
				if obj == nil {
					continue
				}
				var v Value
				if len(vs.Values) == len(vs.Names) {
					v = x.convertTo(s, fr, x.expr(s, fr, vs.Values[i]), fr.info.TypeOf(vs.Values[i]), obj.Type())
				} else if len(vs.Values) == 1 {
					tv := x.expr(s, fr, vs.Values[0]).(*TupleV)
					v = tv.V[i]
				} else {
					v = x.zero(s, obj.Type())
				}
				x.declare(s, fr, obj, v)
			}
		}
		return s
	case *ast.IfStmt:
		if n.Init != nil {
			s = x.stmt(s, fr, n.Init)
			if s == nil {
				return nil
			}
		}
		c := x.branchCond(s, fr, n.Cond)
		if s.infeasible() {
			return nil
		}
		var rt, rf *State
		if !(c.IsC && c.C == 0) {
			st := s
			if !c.IsC {
				st = s.fork()
				st.assume(c)
			}
			rt = x.stmt(st, fr, n.Body)
		}
		if !(c.IsC && c.C != 0) {
			sf := s
			if !c.IsC {
				sf = s.fork()
				sf.assume(Not(c))
			}
			if n.Else != nil {
				rf = x.stmt(sf, fr, n.Else)
			} else {
				rf = sf
			}
		}
		return x.merge(rt, rf)
	case *ast.ForStmt:
		return x.forStmt(s, fr, n, "")
	case *ast.RangeStmt:
		return x.rangeStmt(s, fr, n, "")
	case *ast.LabeledStmt:
		switch l := n.Stmt.(type) {
		case *ast.ForStmt:
			return x.forStmt(s, fr, l, n.Label.Name)
		case *ast.RangeStmt:
			return x.rangeStmt(s, fr, l, n.Label.Name)
		case *ast.SwitchStmt:
			return x.switchStmt(s, fr, l, n.Label.Name)
		}
		return x.stmt(s, fr, n.Stmt)
	case *ast.SwitchStmt:
		return x.switchStmt(s, fr, n, "")
	case *ast.ReturnStmt:
		x.ret(s, fr, n)
		return nil
	case *ast.BranchStmt:
		switch n.Tok {
		case token.BREAK:
			lc := x.findLoop(fr, n.Label, true)
			lc.breaks = append(lc.breaks, s)
			return nil
		case token.CONTINUE:
			lc := x.findLoop(fr, n.Label, false)
			lc.conts = append(lc.conts, s)
			return nil
		case token.FALLTHROUGH:
			unsup("fallthrough outside switch handling")
		}
		unsup("goto")
	case *ast.DeferStmt:
		fr.defers = append(fr.defers, deferred{call: n.Call, fr: fr})
		// arguments are evaluated now in Go; the supported forms have no interesting args
		return s
	case *ast.GoStmt:
		unsup("go statement")
	case *ast.SendStmt:
		x.note("abstracted", "channel send skipped")
		return s
	case *ast.SelectStmt:
		unsup("select statement")
	case *ast.TypeSwitchStmt:
		unsup("type switch")
	}
	unsup("statement %T", st)
	return nil
}

func (x *Exec) isPanicState(s *State) bool { return s.infeasible() }

func (x *Exec) findLoop(fr *Frame, label *ast.Ident, brk bool) *loopCtx {
	for i := len(fr.loops) - 1; i >= 0; i-- {
		lc := fr.loops[i]
		if label != nil {
			if lc.label == label.Name {
				return lc
			}
			continue
		}
		if lc.isSwitch && !brk {
			continue
		}
		return lc
	}
	unsup("break/continue target not found")
	return nil
}

func (x *Exec) declare(s *State, fr *Frame, obj types.Object, v Value) {
	if x.escapes(fr, obj) {
		// address-taken local: lives in the heap
		rgn := x.newRegion(s, memName(obj.Type()), "local")
		x.store(s, memName(obj.Type()), obj.Type(), rgn, I64(0), v)
		s.vars[obj] = &heapVar{rgn: rgn}
		return
	}
	s.vars[obj] = v
}

// heapVar is the binding of an address-taken local: it lives at offset 0 of its own region.
type heapVar struct{ rgn Term }

// escapes reports whether a local variable has its address taken in the
// enclosing function body.
func (x *Exec) escapes(fr *Frame, obj types.Object) bool {
	root := x.frameRoot(fr)
	if root == nil {
		return false
	}
	m, ok := x.escCache[root]
	if !ok {
		m = map[types.Object]bool{}
		info := fr.info
		ast.Inspect(root, func(n ast.Node) bool {
			switch e := n.(type) {
			case *ast.UnaryExpr:
				if e.Op == token.AND {
					if id := rootIdent(e.X); id != nil {
						if o := info.Uses[id]; o != nil {
							if _, isPtr := o.Type().Underlying().(*types.Pointer); !isPtr || id == e.X {
								if !throughPointer(info, e.X) {
									m[o] = true
								}
							}
						}
					}
				}
			case *ast.CallExpr:
				if sel, ok := e.Fun.(*ast.SelectorExpr); ok {
					if selInfo := info.Selections[sel]; selInfo != nil && selInfo.Kind() == types.MethodVal {
						if f, ok := selInfo.Obj().(*types.Func); ok {
							sig := f.Type().(*types.Signature)
							if sig.Recv() != nil {
								if _, ptrRecv := sig.Recv().Type().(*types.Pointer); ptrRecv {
									if _, isPtr := info.TypeOf(sel.X).Underlying().(*types.Pointer); !isPtr {
										if id := rootIdent(sel.X); id != nil && !throughPointer(info, sel.X) {
											if o := info.Uses[id]; o != nil {
												m[o] = true
											}
										}
									}
								}
							}
						}
					}
				}
			case *ast.SliceExpr:
				// slicing a local array takes its address; arrays are references already.
			}
			return true
		})
		x.escCache[root] = m
	}
	return m[obj]
}

func (x *Exec) frameRoot(fr *Frame) ast.Node {
	for f := fr; f != nil; f = f.parent {
		if f.contract != nil && f.contract.Body != nil {
			if f.contract.Decl != nil {
				return f.contract.Decl
			}
			if f.contract.Outer != nil {
				return f.contract.Outer
			}
			return f.contract.Lit
		}
		if f.fn != nil {
			if d, ok := x.w.Decls[f.fn.Origin()]; ok {
				return d.Decl
			}
		}
	}
	return nil
}

func rootIdent(e ast.Expr) *ast.Ident {
	for {
		switch v := e.(type) {
		case *ast.Ident:
			return v
		case *ast.SelectorExpr:
			e = v.X
		case *ast.IndexExpr:
			e = v.X
		case *ast.ParenExpr:
			e = v.X
		case *ast.StarExpr:
			return nil
		default:
			return nil
		}
	}
}

// throughPointer reports whether the access path e goes through a pointer or
// slice (so the root variable itself is not what is addressed).
func throughPointer(info *types.Info, e ast.Expr) bool {
	for {
		switch v := e.(type) {
		case *ast.Ident:
			return false
		case *ast.SelectorExpr:
			if t := info.TypeOf(v.X); t != nil {
				if _, ok := t.Underlying().(*types.Pointer); ok {
					return true
				}
			}
			e = v.X
		case *ast.IndexExpr:
			if t := info.TypeOf(v.X); t != nil {
				switch t.Underlying().(type) {
				case *types.Slice, *types.Pointer:
					return true
				}
			}
			e = v.X
		case *ast.ParenExpr:
			e = v.X
		default:
			return true
		}
	}
}

func (x *Exec) assign(s *State, fr *Frame, n *ast.AssignStmt) {
	if n.Tok != token.ASSIGN && n.Tok != token.DEFINE {
		// op-assign
		loc := x.lvalue(s, fr, n.Lhs[0])
		t := fr.info.TypeOf(n.Lhs[0])
		cur := x.readLoc(s, loc, t)
		rhs := x.expr(s, fr, n.Rhs[0])
		var op token.Token
		switch n.Tok {
		case token.ADD_ASSIGN:
			op = token.ADD
		case token.SUB_ASSIGN:
			op = token.SUB
		case token.MUL_ASSIGN:
			op = token.MUL
		case token.QUO_ASSIGN:
			op = token.QUO
		case token.REM_ASSIGN:
			op = token.REM
		case token.AND_ASSIGN:
			op = token.AND
		case token.OR_ASSIGN:
			op = token.OR
		case token.XOR_ASSIGN:
			op = token.XOR
		case token.SHL_ASSIGN:
			op = token.SHL
		case token.SHR_ASSIGN:
			op = token.SHR
		case token.AND_NOT_ASSIGN:
			op = token.AND_NOT
		default:
			unsup("assign op %s", n.Tok)
		}
		res := x.binop(s, fr, op, cur, rhs, t, fr.info.TypeOf(n.Rhs[0]), n.Pos(), exprText(x.w.Fset, n.Lhs[0])+n.Tok.String())
		x.writeLoc(s, fr, loc, t, res)
		x.afterAssign(s, fr, n)
		return
	}
	// evaluate RHS first
	var vals []Value
	var vtypes []types.Type
	if len(n.Rhs) == 1 && len(n.Lhs) > 1 {
		v := x.exprMulti(s, fr, n.Rhs[0], len(n.Lhs))
		tv, ok := v.(*TupleV)
		if !ok {
			unsup("multi-assign from non-tuple")
		}
		vals = tv.V
		if tt, ok := fr.info.TypeOf(n.Rhs[0]).(*types.Tuple); ok {
			for i := 0; i < tt.Len(); i++ {
				vtypes = append(vtypes, tt.At(i).Type())
			}
		} else {
			for range vals {
				vtypes = append(vtypes, nil)
			}
		}
	} else {
		// evaluate LHS operands' index expressions before? Go evaluates index/pointer operands first; ok for the subset.
		for _, r := range n.Rhs {
			vals = append(vals, x.expr(s, fr, r))
			vtypes = append(vtypes, fr.info.TypeOf(r))
		}
	}
	var locs []Loc
	if n.Tok == token.ASSIGN && len(n.Lhs) > 1 {
		for _, l := range n.Lhs {
			if id, ok := l.(*ast.Ident); ok && id.Name == "_" {
				locs = append(locs, nil)
				continue
			}
			locs = append(locs, x.lvalue(s, fr, l))
		}
	}
	for i, l := range n.Lhs {
		id, isID := l.(*ast.Ident)
		if isID && id.Name == "_" {
			continue
		}
		if n.Tok == token.DEFINE && isID {
			if obj := fr.info.Defs[id]; obj != nil {
				v := vals[i]
				if vtypes[i] != nil {
					v = x.convertTo(s, fr, v, vtypes[i], obj.Type())
				}
				x.declare(s, fr, obj, v)
				continue
			}
		}
		lt := fr.info.TypeOf(l)
		v := vals[i]
		if vtypes[i] != nil && lt != nil {
			v = x.convertTo(s, fr, v, vtypes[i], lt)
		}
		var loc Loc
		if locs != nil {
			loc = locs[i]
		} else {
			loc = x.lvalue(s, fr, l)
		}
		x.writeLoc(s, fr, loc, lt, v)
	}
	x.afterAssign(s, fr, n)
}

// ghostsTouched lists the ghost variables that a directive may update at a call
// or assignment site lying inside the given pieces of code (a loop body).
func (x *Exec) ghostsTouched(c *Contract, nodes []ast.Node) map[string]bool {
	out := map[string]bool{}
	inside := func(p token.Pos) bool {
		for _, nd := range nodes {
			if nd != nil && nd.Pos() <= p && p <= nd.End() {
				return true
			}
		}
		return false
	}
	for _, oc := range c.OnCall {
		for _, site := range x.w.callSites(c, oc.Dir) {
			if inside(site.Pos()) {
				out[oc.Dir.Name] = true
			}
		}
	}
	// a closure defined elsewhere in the function and called from here may contain
	// directive sites: then every ghost variable may change
	info := c.Pkg.TypesInfo
	for _, nd := range nodes {
		if nd == nil {
			continue
		}
		ast.Inspect(nd, func(n ast.Node) bool {
			ce, ok := n.(*ast.CallExpr)
			if !ok {
				return true
			}
			if id, ok := ast.Unparen(ce.Fun).(*ast.Ident); ok {
				if v, ok := info.Uses[id].(*types.Var); ok {
					if _, isSig := v.Type().Underlying().(*types.Signature); isSig && v.Pkg() != nil && v.Parent() != v.Pkg().Scope() {
						for _, g := range c.Ghost {
							out[g.Name] = true
						}
					}
				}
			}
			return true
		})
	}
	for _, oa := range c.OnAssign {
		for _, nd := range nodes {
			if nd == nil {
				continue
			}
			ast.Inspect(nd, func(n ast.Node) bool {
				if as, ok := n.(*ast.AssignStmt); ok {
					for _, l := range as.Lhs {
						if exprText(x.w.Fset, l) == oa.Dir.CallText {
							out[oa.Dir.Name] = true
						}
					}
				}
				return true
			})
		}
	}
	return out
}

// assignOrdinal: the position (1-based, source order) of assignment n among the
// assignments of the contract's body whose left-hand side has the given text.
func (w *World) assignOrdinal(c *Contract, n *ast.AssignStmt, text string) int {
	k, found := 0, 0
	ast.Inspect(c.Body, func(nd ast.Node) bool {
		if as, ok := nd.(*ast.AssignStmt); ok && found == 0 {
			for _, l := range as.Lhs {
				if exprText(w.Fset, l) == text {
					k++
					if as == n {
						found = k
					}
				}
			}
		}
		return true
	})
	return found
}

// afterAssign applies the "on assign" ghost directives of the enclosing contract.
func (x *Exec) afterAssign(s *State, fr *Frame, n *ast.AssignStmt) {
	cf := x.contractFrame(fr)
	if cf == nil || x.spec > 0 || len(cf.contract.OnAssign) == 0 {
		return
	}
	c := cf.contract
	for _, l := range n.Lhs {
		text := exprText(x.w.Fset, l)
		for _, oa := range c.OnAssign {
			if oa.Dir.CallText != text {
				continue
			}
			if oa.Dir.CallOrd != 0 && x.w.assignOrdinal(c, n, text) != oa.Dir.CallOrd {
				continue
			}
			for _, g := range c.Ghost {
				if g.Name == oa.Dir.Name {
					x.setVar(s, fr, g.Var, x.specExpr(s, fr, oa.Expr))
				}
			}
		}
	}
}

func (x *Exec) ret(s *State, fr *Frame, n *ast.ReturnStmt) {
	var vals []Value
	nres := fr.sig.Results().Len()
	switch {
	case len(n.Results) == 0 && nres > 0:
		for _, rv := range fr.results {
			vals = append(vals, x.readVar(s, rv))
		}
	case len(n.Results) == 1 && nres > 1:
		tv := x.exprMulti(s, fr, n.Results[0], nres).(*TupleV)
		vals = tv.V
	default:
		for i, r := range n.Results {
			v := x.expr(s, fr, r)
			v = x.convertTo(s, fr, v, fr.info.TypeOf(r), fr.sig.Results().At(i).Type())
			vals = append(vals, v)
		}
	}
	if s.infeasible() {
		return
	}
	// named results are assigned before deferred functions run
	named := len(fr.results) == nres && nres > 0
	for _, rv := range fr.results {
		if rv.Name() == "" || rv.Name() == "_" {
			named = false
		}
	}
	if named {
		for i, rv := range fr.results {
			x.setVar(s, fr, rv, vals[i])
		}
	}
	x.runDefers(s, fr)
	if named && len(fr.defers) > 0 {
		vals = nil
		for _, rv := range fr.results {
			vals = append(vals, x.readVar(s, rv))
		}
	}
	fr.rets = append(fr.rets, retState{s: s, vals: vals, pos: n.Pos()})
}

func (x *Exec) runDefers(s *State, fr *Frame) {
	for i := len(fr.defers) - 1; i >= 0; i-- {
		d := fr.defers[i]
		x.expr(s, d.fr, d.call)
	}
}

func (x *Exec) readVar(s *State, obj types.Object) Value {
	if v, ok := x.bound[obj]; ok {
		return v
	}
	v, ok := s.vars[obj]
	if !ok {
		return x.global(s, obj)
	}
	if hv, ok := v.(*heapVar); ok {
		return x.load(s, memName(obj.Type()), obj.Type(), hv.rgn, I64(0))
	}
	return v
}

func (x *Exec) setVar(s *State, fr *Frame, obj types.Object, v Value) {
	if cur, ok := s.vars[obj]; ok {
		if hv, ok := cur.(*heapVar); ok {
			x.store(s, memName(obj.Type()), obj.Type(), hv.rgn, I64(0), v)
			return
		}
	}
	s.vars[obj] = v
}

// global returns the value of a package-level variable: constant tables are
// evaluated from their initialiser, everything else is an unknown of its type.
func (x *Exec) global(s *State, obj types.Object) Value {
	if v, ok := x.globals[obj]; ok {
		return v
	}
	vr, ok := obj.(*types.Var)
	if !ok {
		unsup("read of non-variable object %s", obj.Name())
	}
	if vr.Pkg() != nil && vr.Parent() != vr.Pkg().Scope() {
		unsup("variable %s is not in scope of the symbolic state (dropped at a merge?)", obj.Name())
	}
	var v Value
	if isErrorType(vr.Type()) {
		// sentinel error: a distinct non-nil constant
		t := x.ctx.Const("err$"+vr.Pkg().Name()+"."+vr.Name(), SErr)
		x.sentinel(t)
		v = &Scalar{T: t}
	} else if init := x.globalInit(vr); init != nil && isTableType(vr.Type()) {
		p := x.w.Pkgs[vr.Pkg().Path()]
		fr := &Frame{info: p.TypesInfo, pkg: p, name: "init:" + vr.Name(), callOrd: map[string]int{}}
		x.noObl++
		func() {
			defer func() { x.noObl-- }()
			v = x.convertTo(s, fr, x.expr(s, fr, init), p.TypesInfo.TypeOf(init), vr.Type())
		}()
		x.note("assumed", "package-level table "+vr.Pkg().Name()+"."+vr.Name()+" is never modified after initialisation")
	} else {
		v = x.fresh(s, vr.Type(), "g$"+vr.Name())
		x.assumeWF(s, vr.Type(), v)
	}
	x.globals[obj] = v
	return v
}

func isTableType(t types.Type) bool {
	switch u := t.Underlying().(type) {
	case *types.Array:
		return u.Len() <= 64
	case *types.Basic:
		return true
	}
	return false
}

func (x *Exec) globalInit(v *types.Var) ast.Expr {
	p := x.w.Pkgs[v.Pkg().Path()]
	if p == nil || p.TypesInfo == nil {
		return nil
	}
	for _, f := range p.Syntax {
		for _, d := range f.Decls {
			gd, ok := d.(*ast.GenDecl)
			if !ok || gd.Tok != token.VAR {
				continue
			}
			for _, sp := range gd.Specs {
				vs := sp.(*ast.ValueSpec)
				for i, id := range vs.Names {
					if p.TypesInfo.Defs[id] == v && len(vs.Values) == len(vs.Names) {
						return vs.Values[i]
					}
				}
			}
		}
	}
	return nil
}

var sentinels []Term

func (x *Exec) sentinel(t Term) {
	// sentinel errors are pairwise distinct and non-nil
	key := "sentinel:" + t.S
	if x.cbAxioms[key] {
		return
	}
	x.cbAxioms[key] = true
	nilE := x.ctx.Const("err$nil", SErr)
	x.ctx.AddAxiom(key, []string{t.S}, Ne(t, nilE).S)
	x.ctx.AddAxiom(key+":root", []string{t.S, "err$root"}, Eq(x.ctx.UF("err$root", SErr, t), t).S)
	if !strings.HasPrefix(t.S, "err$io.") {
		x.ctx.AddAxiom(key+":own", []string{t.S, "err$external"}, Not(x.ctx.UF("err$external", SBool, t)).S)
	}
	for k := range x.cbAxioms {
		if strings.HasPrefix(k, "sentinel:") && k != key {
			o := strings.TrimPrefix(k, "sentinel:")
			a, b := o, t.S
			if a > b {
				a, b = b, a
			}
			x.ctx.AddAxiom("distinct:"+a+":"+b, []string{a, b}, fmt.Sprintf("(not (= %s %s))", a, b))
		}
	}
}

// ---------------------------------------------------------------------------
// switch

func (x *Exec) switchStmt(s *State, fr *Frame, n *ast.SwitchStmt, label string) *State {
	if n.Init != nil {
		s = x.stmt(s, fr, n.Init)
		if s == nil {
			return nil
		}
	}
	var tag Value
	var tagT types.Type
	if n.Tag != nil {
		tag = x.expr(s, fr, n.Tag)
		tagT = fr.info.TypeOf(n.Tag)
	}
	lc := &loopCtx{label: label, isSwitch: true}
	fr.loops = append(fr.loops, lc)
	defer func() { fr.loops = fr.loops[:len(fr.loops)-1] }()
	var outs []*State
	rest := s // state in which no earlier case matched
	var fall *State
	var deflt *ast.CaseClause
	var defltIdx int
	clauses := n.Body.List
	runBody := func(st *State, idx int) {
		// executes the clause body, handling fallthrough chains
		for st != nil {
			cc := clauses[idx].(*ast.CaseClause)
			body := cc.Body
			ft := false
			if len(body) > 0 {
				if b, ok := body[len(body)-1].(*ast.BranchStmt); ok && b.Tok == token.FALLTHROUGH {
					ft = true
					body = body[:len(body)-1]
				}
			}
			st = x.block(st, fr, body)
			if !ft {
				break
			}
			idx++
		}
		if st != nil {
			outs = append(outs, st)
		}
	}
	_ = fall
	for idx, c := range clauses {
		cc := c.(*ast.CaseClause)
		if cc.List == nil {
			deflt = cc
			defltIdx = idx
			continue
		}
		if rest == nil {
			break
		}
		var conds []Term
		for _, e := range cc.List {
			if tag != nil {
				v := x.expr(rest, fr, e)
				v = x.convertTo(rest, fr, v, fr.info.TypeOf(e), tagT)
				conds = append(conds, valueEq(x, tagT, tag, v))
			} else {
				conds = append(conds, x.branchCond(rest, fr, e))
			}
		}
		c := x.ctx.Share(Or(conds...))
		if !(c.IsC && c.C == 0) {
			st := rest.fork()
			st.assume(c)
			runBody(st, idx)
		}
		if c.IsC && c.C != 0 {
			rest = nil
		} else {
			rest = rest.fork()
			rest.assume(Not(c))
		}
	}
	if rest != nil {
		if deflt != nil {
			runBody(rest, defltIdx)
		} else {
			outs = append(outs, rest)
		}
	}
	outs = append(outs, lc.breaks...)
	return x.mergeAll(outs)
}

// ---------------------------------------------------------------------------
// loops

type writeSet struct {
	vars map[types.Object]bool
	mems map[string]bool
	all  bool
	// region-wise frame: bases[m] lists the slice variables through which memory m is
	// written by indexing (v[i] = ..., v[i].f = ...); whole[m] is set when m is also
	// written in any other way. A memory with bases only, all of them variables the
	// code does not assign, changes in the regions of those slices and nowhere else.
	bases   map[string]map[types.Object]bool
	whole   map[string]bool
	curBase types.Object
	// foreign: the code also calls functions outside the engine's view (dependencies,
	// interface methods); reach names the struct types of the module whose values
	// those calls are handed (see private.go), reachAll: that cannot be bounded.
	foreign  bool
	reach    map[string]bool
	reachAll bool
}

func (x *Exec) loopOrdinal(fr *Frame, st ast.Stmt) (int, *Contract) {
	for f := fr; f != nil; f = f.parent {
		if f.contract != nil {
			for i, l := range f.contract.Loops {
				if l == st {
					return i + 1, f.contract
				}
			}
		}
	}
	return 0, nil
}

func (x *Exec) forStmt(s *State, fr *Frame, n *ast.ForStmt, label string) *State {
	if n.Init != nil {
		s = x.stmt(s, fr, n.Init)
		if s == nil {
			return nil
		}
	}
	condFn := func(st *State) Term {
		if n.Cond == nil {
			return True
		}
		return x.branchCond(st, fr, n.Cond)
	}
	postFn := func(st *State) *State {
		if n.Post == nil {
			return st
		}
		return x.stmt(st, fr, n.Post)
	}
	var nodes []ast.Node
	nodes = append(nodes, n.Body)
	if n.Post != nil {
		nodes = append(nodes, n.Post)
	}
	if n.Cond != nil {
		nodes = append(nodes, n.Cond)
	}
	return x.loop(s, fr, n, label, condFn, func(st *State) *State { return x.stmt(st, fr, n.Body) }, postFn, nodes, nil)
}

func (x *Exec) rangeStmt(s *State, fr *Frame, n *ast.RangeStmt, label string) *State {
	xt := fr.info.TypeOf(n.X)
	var keyObj, valObj types.Object
	declare := n.Tok == token.DEFINE
	getObj := func(e ast.Expr) types.Object {
		id, ok := e.(*ast.Ident)
		if !ok || id.Name == "_" {
			return nil
		}
		if declare {
			return fr.info.Defs[id]
		}
		return fr.info.Uses[id]
	}
	if n.Key != nil {
		keyObj = getObj(n.Key)
		if keyObj == nil {
			if id, ok := n.Key.(*ast.Ident); !ok || id.Name != "_" {
				unsup("range key is not an identifier")
			}
		}
	}
	keyIsSynthetic := false
	if keyObj == nil && fr.pkg != nil && fr.pkg.Types != nil {
		// a loop without an index variable: contracts may name its iteration counter pvc_idx
		if o := fr.pkg.Types.Scope().Lookup("pvc_idx"); o != nil {
			keyObj = o
			keyIsSynthetic = true
		}
	}
	if n.Value != nil {
		valObj = getObj(n.Value)
		if valObj == nil {
			if id, ok := n.Value.(*ast.Ident); !ok || id.Name != "_" {
				unsup("range value is not an identifier")
			}
		}
	}
	if _, isFunc := xt.Underlying().(*types.Signature); isFunc {
		// range over an iterator function: an unknown number of iterations, each yielding
		// unknown values (the iterator is assumed to have no other effect)
		x.expr(s, fr, n.X)
		x.note("assumed", "range-over-func iterator "+exprText(x.w.Fset, n.X)+" yields arbitrary values and has no other effect")
		bindF := func(st *State) {
			for _, o := range []types.Object{keyObj, valObj} {
				if o == nil || (o == keyObj && keyIsSynthetic) {
					continue
				}
				v := x.fresh(st, o.Type(), o.Name())
				x.assumeWF(st, o.Type(), v)
				if declare {
					x.declare(st, fr, o, v)
				} else {
					x.setVar(st, fr, o, v)
				}
			}
		}
		condF := func(st *State) Term { return x.ctx.Fresh("iter$more", SBool) }
		bodyF := func(st *State) *State {
			bindF(st)
			return x.stmt(st, fr, n.Body)
		}
		return x.loop(s, fr, n, label, condF, bodyF, func(st *State) *State { return st }, []ast.Node{n.Body}, nil)
	}
	// hidden index variable
	idxObj := types.NewVar(n.Pos(), nil, "range$i", types.Typ[types.Int])
	var length Term
	var elemAt func(st *State, i Term) Value
	switch u := xt.Underlying().(type) {
	case *types.Slice:
		sv, ok := x.expr(s, fr, n.X).(*SliceV)
		if !ok {
			unsup("range over opaque slice")
		}
		length = sv.Len
		elemAt = func(st *State, i Term) Value {
			return x.load(st, memName(u.Elem()), u.Elem(), sv.Rgn, Add64(sv.Off, i))
		}
	case *types.Array:
		av := x.expr(s, fr, n.X).(*ArrayRef)
		length = I64(av.N)
		elemAt = func(st *State, i Term) Value {
			return x.load(st, memName(u.Elem()), u.Elem(), av.Rgn, Add64(av.Off, i))
		}
	case *types.Basic:
		if u.Info()&types.IsInteger == 0 {
			unsup("range over %s", xt)
		}
		nv := x.expr(s, fr, n.X).(*Scalar)
		length = Resize(nv.T, 64, u.Info()&types.IsUnsigned == 0)
		if valObj != nil {
			unsup("range over int with value")
		}
	case *types.Pointer:
		at, ok := u.Elem().Underlying().(*types.Array)
		if !ok {
			unsup("range over pointer to %s", u.Elem())
		}
		pv := x.expr(s, fr, n.X).(*PtrV)
		length = I64(at.Len())
		elemAt = func(st *State, i Term) Value {
			return x.load(st, memName(at.Elem()), at.Elem(), pv.Rgn, Add64(pv.Off, i))
		}
	default:
		unsup("range over %s", xt)
	}
	length = x.ctx.Share(length)
	s.vars[idxObj] = &Scalar{T: I64(0)}
	keyT := types.Type(types.Typ[types.Int])
	if keyObj != nil {
		keyT = keyObj.Type()
	}
	keyW := 64
	if so, ok := x.scalarSort(keyT); ok && so.IsBV() {
		keyW = so.Width()
	}
	bind := func(st *State) {
		i := st.vars[idxObj].(*Scalar).T
		if keyObj != nil {
			kv := &Scalar{T: Resize(i, keyW, true)}
			if keyIsSynthetic {
				st.vars[keyObj] = kv
			} else if declare {
				x.declare(st, fr, keyObj, kv)
			} else {
				x.setVar(st, fr, keyObj, kv)
			}
		}
		if valObj != nil {
			ev := elemAt(st, i)
			if declare {
				x.declare(st, fr, valObj, ev)
			} else {
				x.setVar(st, fr, valObj, ev)
			}
		}
	}
	condFn := func(st *State) Term {
		i := st.vars[idxObj].(*Scalar).T
		return Slt(i, length)
	}
	bodyFn := func(st *State) *State {
		bind(st)
		return x.stmt(st, fr, n.Body)
	}
	postFn := func(st *State) *State {
		i := st.vars[idxObj].(*Scalar).T
		st.vars[idxObj] = &Scalar{T: x.ctx.Share(Add64(i, I64(1)))}
		return st
	}
	extraInv := func(st *State) []Term {
		i := st.vars[idxObj].(*Scalar).T
		return []Term{Sle(I64(0), i), Sle(i, length)}
	}
	extra := &rangeExtra{idx: idxObj, keyObj: keyObj, valObj: valObj, inv: extraInv, bind: bind, length: length}
	return x.loop(s, fr, n, label, condFn, bodyFn, postFn, []ast.Node{n.Body}, extra)
}

type rangeExtra struct {
	idx    types.Object
	keyObj types.Object
	valObj types.Object
	inv    func(*State) []Term
	bind   func(*State)
	length Term
}


func (x *Exec) loop(s *State, fr *Frame, node ast.Stmt, label string, condFn func(*State) Term,
	bodyFn func(*State) *State, postFn func(*State) *State, wsNodes []ast.Node, rx *rangeExtra) *State {

	ord, c := x.loopOrdinal(fr, node)
	unroll := 0
	var invs []CExpr
	var dec *CExpr
	if c != nil {
		unroll = c.Unroll[ord]
		invs = c.LoopInv[ord]
		if d, ok := c.LoopDec[ord]; ok {
			dec = &d
		}
	}
	lname := fmt.Sprintf("loop%d", ord)
	if ord == 0 {
		lname = "loop@" + fr.name
	}
	if unroll == 0 && ord == 0 {
		// a loop inside an inlined callee without its own contract: bounded unrolling is not sound; abstract.
		unsup("loop in uncontracted inlined function %s", fr.name)
	}
	if unroll > 0 {
		var exits []*State
		cur := s
		for k := 0; k < unroll && cur != nil; k++ {
			cnd := condFn(cur)
			if !(cnd.IsC && cnd.C != 0) {
				e := cur.fork()
				e.assume(Not(cnd))
				exits = append(exits, e)
			}
			if cnd.IsC && cnd.C == 0 {
				cur = nil
				break
			}
			b := cur.fork()
			b.assume(cnd)
			lc := &loopCtx{label: label}
			fr.loops = append(fr.loops, lc)
			out := bodyFn(b)
			fr.loops = fr.loops[:len(fr.loops)-1]
			exits = append(exits, lc.breaks...)
			out = x.mergeAll(append([]*State{out}, lc.conts...))
			if out != nil {
				out = postFn(out)
			}
			cur = out
		}
		if cur != nil && !cur.infeasible() {
			cnd := condFn(cur)
			x.oblige(cur, "unwind", lname+".unwind", Not(cnd), node.Pos(), fmt.Sprintf("loop %d terminates within %d iterations", ord, unroll))
			e := cur.fork()
			e.assume(Not(cnd))
			exits = append(exits, e)
		}
		return x.mergeAll(exits)
	}

	evalInvs := func(st *State) []Term {
		var out []Term
		if rx != nil {
			out = append(out, rx.inv(st)...)
		}
		for _, iv := range invs {
			out = append(out, x.specCond(st, fr, iv.Expr))
		}
		return out
	}
	// init
	if rx != nil {
		// bind loop variables so invariants can mention them on entry (only meaningful if length > 0)
	}
	for i, iv := range invs {
		st := s
		if rx != nil {
			st = s.fork()
			x.noObl++
			x.spec++
			func() {
				defer func() { x.noObl--; x.spec--; recover() }()
				rx.bind(st)
			}()
		}
		x.oblige(st, "loop-init", fmt.Sprintf("%s.init#%d", lname, i+1), x.specCond(st, fr, iv.Expr), node.Pos(), iv.Text)
	}
	// havoc
	ws := &writeSet{vars: map[types.Object]bool{}, mems: map[string]bool{}}
	for _, nd := range wsNodes {
		if st, ok := nd.(ast.Stmt); ok {
			x.scanCarried(fr.info, st, ws, false)
		} else {
			x.scanWrites(fr.info, nd, ws, map[*types.Func]bool{}, 0)
		}
	}
	// ghost variables updated by on-call directives inside the loop
	if fr.contract != nil || c != nil {
		cc := c
		if cc == nil {
			cc = fr.contract
		}
		touched := x.ghostsTouched(cc, wsNodes)
		for _, g := range cc.Ghost {
			if touched[g.Name] {
				ws.vars[g.Var] = true
			}
		}
	}
	h := s.fork()
	if rx != nil {
		ws.vars[rx.idx] = true
		if rx.keyObj != nil {
			ws.vars[rx.keyObj] = true
		}
		if rx.valObj != nil {
			ws.vars[rx.valObj] = true
		}
	}
	var names []string
	for o := range ws.vars {
		cur, ok := h.vars[o]
		if !ok {
			continue
		}
		if _, isHeap := cur.(*heapVar); isHeap {
			continue
		}
		if _, isF := cur.(*FuncV); isF {
			continue
		}
		nv := x.fresh(h, o.Type(), o.Name())
		x.assumeWF(h, o.Type(), nv)
		h.vars[o] = nv
		names = append(names, o.Name())
	}
	sort.Strings(names)
	if ws.all {
		x.havocAllMem(h, "loop body may write anything")
	} else {
		for m := range ws.mems {
			if srt, ok := x.memSorts[m]; ok {
				if rg, ok := x.frameRegions(h, ws, m); ok {
					// written only by indexing slices the loop does not reassign: only
					// their regions change
					cur := x.mem(h, m, srt)
					for _, r := range rg {
						cur = Store(cur, r, x.ctx.Fresh("in$"+m, ArrSort(srt)))
					}
					x.setMem(h, m, cur)
					continue
				}
				h.mem[m] = x.ctx.Fresh("mem$"+m, outerSort(srt))
			} else {
				// memory not touched so far: materialise lazily with a fresh name
				delete(h.mem, m)
				x.pendingHavoc(h, m)
			}
		}
		if ws.foreign {
			x.havocForeign(h, ws, "loop body calls code outside the module")
		}
	}
	if rx != nil {
		// at the loop head the key/value variables denote the current index/element
		x.noObl++
		x.spec++
		func() {
			defer func() { x.noObl--; x.spec--; recover() }()
			rx.bind(h)
		}()
	}
	for _, t := range evalInvs(h) {
		h.assume(t)
	}
	var decBefore Term
	cnd := condFn(h)
	var exits []*State
	if !(cnd.IsC && cnd.C != 0) {
		e := h.fork()
		e.assume(Not(cnd))
		exits = append(exits, e)
	}
	if !(cnd.IsC && cnd.C == 0) {
		b := h.fork()
		b.assume(cnd)
		if len(invs) > 0 {
			x.cover(b, lname+".cover", True, "loop invariant and guard are satisfiable")
		}
		if dec != nil {
			decBefore = x.specExpr(b, fr, dec.Expr).(*Scalar).T
		}
		lc := &loopCtx{label: label}
		fr.loops = append(fr.loops, lc)
		out := bodyFn(b)
		fr.loops = fr.loops[:len(fr.loops)-1]
		exits = append(exits, lc.breaks...)
		out = x.mergeAll(append([]*State{out}, lc.conts...))
		if out != nil {
			out = postFn(out)
		}
		if out != nil && !out.infeasible() {
			if rx != nil {
				st := out.fork()
				for i, t := range rx.inv(st) {
					x.oblige(st, "loop-preserved", fmt.Sprintf("%s.range#%d", lname, i+1), t, node.Pos(), "range index stays within bounds")
				}
			}
			for i, iv := range invs {
				st := out
				if rx != nil {
					st = out.fork()
					x.noObl++
					x.spec++
					func() {
						defer func() { x.noObl--; x.spec--; recover() }()
						// bind the loop variables for the next iteration
						rx.bind(st)
					}()
				}
				x.oblige(st, "loop-preserved", fmt.Sprintf("%s.preserved#%d", lname, i+1), x.specCond(st, fr, iv.Expr), node.Pos(), iv.Text)
			}
			if dec != nil {
				after := x.specExpr(out, fr, dec.Expr).(*Scalar).T
				x.oblige(out, "loop-variant", lname+".variant", And(Slt(after, decBefore), Sle(BVLit(0, after.Sort.Width()), decBefore)), node.Pos(), dec.Text)
			}
		}
	}
	return x.mergeAll(exits)
}

// frameRegions: the regions a loop may change in memory m, when that is known (see
// writeSet.bases).
func (x *Exec) frameRegions(h *State, ws *writeSet, m string) ([]Term, bool) {
	if ws.whole[m] || len(ws.bases[m]) == 0 {
		return nil, false
	}
	var out []Term
	var names []string
	byName := map[string]Term{}
	for o := range ws.bases[m] {
		if ws.vars[o] {
			return nil, false
		}
		sv, ok := h.vars[o].(*SliceV)
		if !ok {
			return nil, false
		}
		names = append(names, sv.Rgn.S)
		byName[sv.Rgn.S] = sv.Rgn
	}
	sort.Strings(names)
	for _, n := range names {
		out = append(out, byName[n])
	}
	return out, true
}

// pendingHavoc handles a havoc of a memory whose sort is not known yet: every
// memory that was never materialised gets a fresh identity.
func (x *Exec) pendingHavoc(s *State, m string) {
	if s.pend == nil {
		s.pend = map[string]int{}
	}
	s.pend[m] = x.newEpoch()
}

// lazyName is the name under which a memory that was never touched on this path is
// materialised: its identity at the last point where it may have changed.
func (x *Exec) lazyName(s *State, name string) string {
	// epochs are issued in increasing order: the latest event that may have changed
	// this memory names it
	e := s.memEpoch
	if s.privEpoch != s.memEpoch && !s.fReachAll {
		if k, ok := privateFieldOf(name); ok && !s.fReach[k.typeKey] && x.fieldIsPrivate(k) {
			x.note("assumed", foreignAssumption)
			e = s.privEpoch
		}
	}
	if pe, ok := s.pend[name]; ok && pe > e {
		e = pe
	}
	return lazyMemName(name, e)
}

func (x *Exec) newEpoch() int {
	x.epochs++
	return x.epochs
}

// scanCarried computes what a loop body may write on paths that reach the back
// edge: blocks that always leave the loop (return, panic, break out of it) are
// skipped, because their effects are never seen by a later iteration.
// nested is true inside an inner switch/select/loop, where an unlabelled break
// does not leave the loop under analysis.
func (x *Exec) scanCarried(info *types.Info, st ast.Stmt, ws *writeSet, nested bool) {
	if st == nil {
		return
	}
	full := func(n ast.Node) { x.scanWrites(info, n, ws, map[*types.Func]bool{}, 0) }
	switch n := st.(type) {
	case *ast.BlockStmt:
		if x.leavesLoop(n.List, nested) {
			return
		}
		for _, c := range n.List {
			x.scanCarried(info, c, ws, nested)
		}
	case *ast.IfStmt:
		if n.Init != nil {
			full(n.Init)
		}
		full(n.Cond)
		x.scanCarried(info, n.Body, ws, nested)
		if n.Else != nil {
			x.scanCarried(info, n.Else, ws, nested)
		}
	case *ast.SwitchStmt:
		if n.Init != nil {
			full(n.Init)
		}
		if n.Tag != nil {
			full(n.Tag)
		}
		for _, c := range n.Body.List {
			cc := c.(*ast.CaseClause)
			for _, e := range cc.List {
				full(e)
			}
			if x.leavesLoop(cc.Body, true) {
				continue
			}
			for _, b := range cc.Body {
				x.scanCarried(info, b, ws, true)
			}
		}
	case *ast.LabeledStmt:
		x.scanCarried(info, n.Stmt, ws, nested)
	default:
		full(st)
	}
}

// leavesLoop reports whether a statement list always ends by leaving the loop.
func (x *Exec) leavesLoop(list []ast.Stmt, nested bool) bool {
	if len(list) == 0 {
		return false
	}
	hasContinue := false
	for _, st := range list {
		ast.Inspect(st, func(nd ast.Node) bool {
			switch b := nd.(type) {
			case *ast.FuncLit:
				return false
			case *ast.BranchStmt:
				if b.Tok == token.CONTINUE || b.Tok == token.GOTO {
					hasContinue = true
				}
			}
			return true
		})
	}
	if hasContinue {
		return false
	}
	switch n := list[len(list)-1].(type) {
	case *ast.ReturnStmt:
		return true
	case *ast.BranchStmt:
		return n.Tok == token.BREAK && n.Label == nil && !nested
	case *ast.ExprStmt:
		if call, ok := n.X.(*ast.CallExpr); ok {
			if id, ok := call.Fun.(*ast.Ident); ok && id.Name == "panic" {
				return true
			}
		}
	case *ast.BlockStmt:
		return x.leavesLoop(n.List, nested)
	case *ast.IfStmt:
		if n.Else == nil {
			return false
		}
		var elseList []ast.Stmt
		switch e := n.Else.(type) {
		case *ast.BlockStmt:
			elseList = e.List
		default:
			elseList = []ast.Stmt{e}
		}
		return x.leavesLoop(n.Body.List, nested) && x.leavesLoop(elseList, nested)
	}
	return false
}

// scanWrites computes a syntactic over-approximation of what a piece of code writes.
func (x *Exec) scanWrites(info *types.Info, node ast.Node, ws *writeSet, seen map[*types.Func]bool, depth int) {
	if node == nil {
		return
	}
	markL := func(e ast.Expr) {
		x.markLvalue(info, e, ws)
	}
	ast.Inspect(node, func(n ast.Node) bool {
		switch v := n.(type) {
		case *ast.AssignStmt:
			for _, l := range v.Lhs {
				markL(l)
			}
		case *ast.IncDecStmt:
			markL(v.X)
		case *ast.RangeStmt:
			if v.Tok == token.ASSIGN {
				if v.Key != nil {
					markL(v.Key)
				}
				if v.Value != nil {
					markL(v.Value)
				}
			}
		case *ast.GoStmt, *ast.SelectStmt:
			ws.markAll()
		case *ast.UnaryExpr:
			if v.Op == token.AND {
				// address taken: whoever receives it may write the addressed location (for a
				// field reached through a pointer that is the pointee's field, not the
				// pointer variable); the address of a composite literal is a fresh object
				if _, isLit := ast.Unparen(v.X).(*ast.CompositeLit); !isLit {
					markL(v.X)
				}
			}
		case *ast.CallExpr:
			x.scanCallWrites(info, v, ws, seen, depth)
		}
		return true
	})
}

func (x *Exec) markLvalue(info *types.Info, e ast.Expr, ws *writeSet) {
	switch v := e.(type) {
	case *ast.Ident:
		if v.Name == "_" {
			return
		}
		if o := info.Uses[v]; o != nil {
			ws.vars[o] = true
		} else if o := info.Defs[v]; o != nil {
			ws.vars[o] = true
		}
	case *ast.ParenExpr:
		x.markLvalue(info, v.X, ws)
	case *ast.StarExpr:
		if pt, ok := info.TypeOf(v.X).Underlying().(*types.Pointer); ok {
			x.markType(pt.Elem(), memName(pt.Elem()), ws)
		} else {
			ws.markAll()
		}
	case *ast.IndexExpr:
		switch u := info.TypeOf(v.X).Underlying().(type) {
		case *types.Slice:
			saved := ws.curBase
			ws.curBase = sliceBase(info, v.X)
			x.markType(u.Elem(), memName(u.Elem()), ws)
			ws.curBase = saved
		case *types.Array:
			x.markType(u.Elem(), memName(u.Elem()), ws)
		case *types.Pointer:
			if at, ok := u.Elem().Underlying().(*types.Array); ok {
				x.markType(at.Elem(), memName(at.Elem()), ws)
			} else {
				ws.markAll()
			}
		case *types.Map:
			// maps are opaque references; contents are not tracked
		default:
			ws.markAll()
		}
	case *ast.SelectorExpr:
		// find the innermost pointer dereference in the chain
		path := ""
		cur := ast.Expr(v)
		for {
			sel, ok := cur.(*ast.SelectorExpr)
			if !ok {
				break
			}
			si := info.Selections[sel]
			if si == nil {
				ws.markAll()
				return
			}
			xt := info.TypeOf(sel.X)
			// embedded-field promotion: resolve the full path
			p, root, viaPtr := selectionPath(si, xt)
			if viaPtr {
				x.markType(si.Obj().Type(), memName(root)+p+path, ws)
				return
			}
			path = p + path
			cur = sel.X
		}
		// value struct rooted at a variable / index / call
		switch r := cur.(type) {
		case *ast.Ident:
			if o := info.Uses[r]; o != nil {
				ws.vars[o] = true
			}
		case *ast.IndexExpr:
			switch u := info.TypeOf(r.X).Underlying().(type) {
			case *types.Slice:
				saved := ws.curBase
				ws.curBase = sliceBase(info, r.X)
				x.markType(info.TypeOf(e), memName(u.Elem())+path, ws)
				ws.curBase = saved
			case *types.Array:
				x.markType(info.TypeOf(e), memName(u.Elem())+path, ws)
			default:
				ws.markAll()
			}
		case *ast.StarExpr:
			if pt, ok := info.TypeOf(r.X).Underlying().(*types.Pointer); ok {
				x.markType(info.TypeOf(e), memName(pt.Elem())+path, ws)
			} else {
				ws.markAll()
			}
		case *ast.ParenExpr:
			ws.markAll()
		default:
			ws.markAll()
		}
	default:
		ws.markAll()
	}
}

// selectionPath returns the field path of a selection (".a.b"), the type whose
// memory holds it (the last pointer target on the path, or nil), and whether a
// pointer is dereferenced.
func selectionPath(si *types.Selection, recv types.Type) (string, types.Type, bool) {
	t := recv
	var root types.Type
	path := ""
	via := false
	idx := si.Index()
	if si.Kind() != types.FieldVal {
		idx = idx[:len(idx)-1]
	}
	for _, i := range idx {
		if pt, ok := t.Underlying().(*types.Pointer); ok {
			t = pt.Elem()
			root = t
			path = ""
			via = true
		}
		st := t.Underlying().(*types.Struct)
		f := st.Field(i)
		path += "." + f.Name()
		t = f.Type()
	}
	return path, root, via
}

func (x *Exec) markType(t types.Type, prefix string, ws *writeSet) {
	defer func() {
		if r := recover(); r != nil {
			ws.markAll()
		}
	}()
	for _, l := range x.leaves(t) {
		ws.mems[prefix+l.path] = true
		if ws.curBase != nil {
			if ws.bases == nil {
				ws.bases = map[string]map[types.Object]bool{}
			}
			if ws.bases[prefix+l.path] == nil {
				ws.bases[prefix+l.path] = map[types.Object]bool{}
			}
			ws.bases[prefix+l.path][ws.curBase] = true
		} else {
			if ws.whole == nil {
				ws.whole = map[string]bool{}
			}
			ws.whole[prefix+l.path] = true
		}
		if _, ok := x.memSorts[prefix+l.path]; !ok {
			x.memSorts[prefix+l.path] = l.sort
		}
	}
	// arrays inside: element memories (they live in regions of their own)
	saved := ws.curBase
	ws.curBase = nil
	x.markArrays(t, ws)
	ws.curBase = saved
}

// sliceBase returns the local slice variable an index expression's operand denotes.
func sliceBase(info *types.Info, e ast.Expr) types.Object {
	id, ok := ast.Unparen(e).(*ast.Ident)
	if !ok {
		return nil
	}
	v, ok := info.Uses[id].(*types.Var)
	if !ok || v.IsField() || v.Pkg() == nil || v.Parent() == v.Pkg().Scope() {
		return nil
	}
	if _, ok := v.Type().Underlying().(*types.Slice); !ok {
		return nil
	}
	return v
}

func (x *Exec) markArrays(t types.Type, ws *writeSet) {
	switch u := t.Underlying().(type) {
	case *types.Array:
		x.markType(u.Elem(), memName(u.Elem()), ws)
	case *types.Struct:
		for i := 0; i < u.NumFields(); i++ {
			x.markArrays(u.Field(i).Type(), ws)
		}
	}
}

func (x *Exec) scanCallWrites(info *types.Info, call *ast.CallExpr, ws *writeSet, seen map[*types.Func]bool, depth int) {
	// conversions
	if tv, ok := info.Types[call.Fun]; ok && tv.IsType() {
		return
	}
	switch f := call.Fun.(type) {
	case *ast.Ident:
		if b, ok := info.Uses[f].(*types.Builtin); ok {
			switch b.Name() {
			case "copy", "append":
				if len(call.Args) > 0 {
					if st, ok := info.TypeOf(call.Args[0]).Underlying().(*types.Slice); ok {
						x.markType(st.Elem(), memName(st.Elem()), ws)
					}
				}
			case "clear":
				if st, ok := info.TypeOf(call.Args[0]).Underlying().(*types.Slice); ok {
					x.markType(st.Elem(), memName(st.Elem()), ws)
				}
			case "delete":
			}
			return
		}
	}
	if sel, ok := call.Fun.(*ast.SelectorExpr); ok {
		if _, isB := info.Uses[sel.Sel].(*types.Builtin); isB {
			return // unsafe.Add, unsafe.Slice, ...: no writes
		}
	}
	fn := x.staticCallee(info, call)
	if fn == nil {
		if lit, ok := call.Fun.(*ast.FuncLit); ok {
			x.scanWrites(info, lit.Body, ws, seen, depth)
			return
		}
		// function value: closures defined locally are scanned where they are defined (their
		// assignments are found by the enclosing Inspect); anything else may write anything.
		if id, ok := call.Fun.(*ast.Ident); ok {
			if _, isVar := info.Uses[id].(*types.Var); isVar {
				if _, isSig := info.TypeOf(id).Underlying().(*types.Signature); isSig {
					// callbacks are assumed pure (see DESIGN 2.6)
					return
				}
			}
		}
		if sel, ok := call.Fun.(*ast.SelectorExpr); ok {
			if _, isSig := info.TypeOf(sel).Underlying().(*types.Signature); isSig {
				if si := info.Selections[sel]; si != nil && si.Kind() == types.FieldVal {
					return // callback stored in a field: assumed pure
				}
			}
			if si := info.Selections[sel]; si != nil && si.Kind() == types.MethodVal {
				if _, isIface := si.Recv().Underlying().(*types.Interface); isIface {
					// dynamic dispatch: a callee outside the engine's view (private.go)
					x.markForeign(info, call, ws)
					return
				}
			}
		}
		ws.markAll()
		return
	}
	fn = fn.Origin()
	if pureExternal(fn) {
		return
	}
	if eff, ok := externalWrites(fn); ok {
		for _, argIdx := range eff {
			if argIdx < len(call.Args) {
				if st, ok := info.TypeOf(call.Args[argIdx]).Underlying().(*types.Slice); ok {
					x.markType(st.Elem(), memName(st.Elem()), ws)
				} else {
					ws.markAll()
				}
			}
		}
		return
	}
	if x.atomicOp(fn) != "" {
		// writes the receiver's value field
		if sel, ok := call.Fun.(*ast.SelectorExpr); ok {
			x.markLvalueAtomic(info, sel.X, ws)
		}
		return
	}
	if ownStateDependency(fn) != "" {
		// writes its receiver (and its own heap objects, which the module cannot
		// read); function literal arguments are scanned by the enclosing Inspect
		sel, ok := call.Fun.(*ast.SelectorExpr)
		okArgs := ok
		for _, a := range call.Args {
			if _, isSig := info.TypeOf(a).Underlying().(*types.Signature); isSig {
				if _, isLit := ast.Unparen(a).(*ast.FuncLit); !isLit {
					okArgs = false
				}
			}
		}
		if okArgs {
			if _, isPtr := info.TypeOf(sel.X).Underlying().(*types.Pointer); isPtr {
				x.markLvalue(info, &ast.StarExpr{X: sel.X}, ws)
			} else {
				x.markLvalue(info, sel.X, ws)
			}
			return
		}
	}
	if c, ok := x.w.Contracts[fn]; ok && (len(c.Assigns) > 0 || c.Block.Has("pure")) {
		for _, a := range c.Assigns {
			x.markLvalue(c.Pkg.TypesInfo, a.Expr, ws)
			// "x[*]" means the elements of the slice
			if st, ok := c.Pkg.TypesInfo.TypeOf(a.Expr).Underlying().(*types.Slice); ok && strings.HasSuffix(a.Text, "[*]") {
				x.markType(st.Elem(), memName(st.Elem()), ws)
			}
		}
		return
	}
	if seen[fn] || depth > 6 {
		if !seen[fn] {
			ws.markAll()
		}
		return
	}
	d, ok := x.w.Decls[fn]
	if !ok || d.Decl.Body == nil || d.Pkg.TypesInfo == nil {
		// a dependency or an interface method: see private.go
		x.markForeign(info, call, ws)
		return
	}
	if fn.Pkg() == nil || !strings.HasPrefix(fn.Pkg().Path(), repoModule) {
		// a dependency whose source is loaded: its syntactic write set if that is
		// informative (sort.Search only calls its argument), a foreign call otherwise
		seen[fn] = true
		sub := &writeSet{vars: map[types.Object]bool{}, mems: map[string]bool{}}
		x.scanWrites(d.Pkg.TypesInfo, d.Decl.Body, sub, seen, depth+1)
		if sub.all || sub.foreign {
			x.markForeign(info, call, ws)
		} else {
			ws.absorb(sub)
		}
		return
	}
	seen[fn] = true
	sub := &writeSet{vars: map[types.Object]bool{}, mems: map[string]bool{}}
	x.scanWrites(d.Pkg.TypesInfo, d.Decl.Body, sub, seen, depth+1)
	if debugHavoc && sub.all {
		fmt.Fprintln(os.Stderr, "pvc: write set of", fullName(fn), "is 'everything' (depth", depth, ")")
	}
	ws.absorb(sub)
	// a pointer-receiver method called on an addressable local writes that local
	// (a value-receiver method gets a copy and cannot)
	ptrRecv := false
	if sg, ok := fn.Type().(*types.Signature); ok && sg.Recv() != nil {
		_, ptrRecv = sg.Recv().Type().Underlying().(*types.Pointer)
	}
	if sel, ok := call.Fun.(*ast.SelectorExpr); ok && ptrRecv {
		if id := rootIdent(sel.X); id != nil {
			if o := info.Uses[id]; o != nil {
				if _, isPtr := o.Type().Underlying().(*types.Pointer); !isPtr {
					ws.vars[o] = true
				}
			}
		}
	}
}

func (x *Exec) markLvalueAtomic(info *types.Info, e ast.Expr, ws *writeSet) {
	t := info.TypeOf(e)
	if pt, ok := t.Underlying().(*types.Pointer); ok {
		x.markType(pt.Elem(), memName(pt.Elem()), ws)
		return
	}
	x.markLvalue(info, e, ws)
}

// staticCallee resolves a call to a declared function or method, if static.
func (x *Exec) staticCallee(info *types.Info, call *ast.CallExpr) *types.Func {
	fun := ast.Unparen(call.Fun)
	switch f := fun.(type) {
	case *ast.Ident:
		if fn, ok := info.Uses[f].(*types.Func); ok {
			return fn
		}
	case *ast.SelectorExpr:
		if si := info.Selections[f]; si != nil {
			if si.Kind() == types.MethodVal {
				if fn, ok := si.Obj().(*types.Func); ok {
					if _, isIface := si.Recv().Underlying().(*types.Interface); isIface {
						return nil
					}
					return fn
				}
			}
			return nil
		}
		if fn, ok := info.Uses[f.Sel].(*types.Func); ok {
			return fn
		}
	case *ast.IndexExpr:
		if id, ok := f.X.(*ast.Ident); ok {
			if fn, ok := info.Uses[id].(*types.Func); ok {
				return fn
			}
		}
		if sel, ok := f.X.(*ast.SelectorExpr); ok {
			if fn, ok := info.Uses[sel.Sel].(*types.Func); ok {
				return fn
			}
		}
	}
	return nil
}

// havocStmt over-approximates an unsupported statement: every variable it may
// assign and all memory is forgotten.
func (x *Exec) havocStmt(s *State, fr *Frame, st ast.Stmt) *State {
	ws := &writeSet{vars: map[types.Object]bool{}, mems: map[string]bool{}}
	x.scanWrites(fr.info, st, ws, map[*types.Func]bool{}, 0)
	// ghost variables whose directives have a site inside the statement: their updates
	// are not executed, so their values become unknown
	if cf := x.contractFrame(fr); cf != nil {
		touched := x.ghostsTouched(cf.contract, []ast.Node{st})
		for _, g := range cf.contract.Ghost {
			if touched[g.Name] {
				ws.vars[g.Var] = true
			}
		}
	}
	for o := range ws.vars {
		if cur, ok := s.vars[o]; ok {
			if _, isHeap := cur.(*heapVar); isHeap {
				continue
			}
			func() {
				defer func() { recover() }()
				nv := x.fresh(s, o.Type(), o.Name())
				x.assumeWF(s, o.Type(), nv)
				s.vars[o] = nv
			}()
		}
	}
	// variables defined by the statement
	ast.Inspect(st, func(n ast.Node) bool {
		if id, ok := n.(*ast.Ident); ok {
			if o := fr.info.Defs[id]; o != nil {
				if _, isVar := o.(*types.Var); isVar {
					func() {
						defer func() { recover() }()
						nv := x.fresh(s, o.Type(), o.Name())
						x.assumeWF(s, o.Type(), nv)
						s.vars[o] = nv
					}()
				}
			}
		}
		return true
	})
	if ws.all {
		x.havocAllMem(s, "unsupported statement")
	} else {
		// the statement writes at most the memories of its syntactic write set
		for m := range ws.mems {
			if srt, ok := x.memSorts[m]; ok {
				s.mem[m] = x.ctx.Fresh("mem$"+m, outerSort(srt))
				x.noteWriteAll(s, "unsupported statement may write "+m)
			} else {
				x.noteWriteAll(s, "unsupported statement may write "+m)
				delete(s.mem, m)
				x.pendingHavoc(s, m)
			}
		}
		if ws.foreign {
			x.havocForeign(s, ws, "unsupported statement calls code outside the module")
		}
	}
	// control flow out of the statement (return/break) is lost: reject if it has any
	hasJump := escapes(st)
	if hasJump {
		panic(unsupported{"unsupported statement contains return/break/continue: " + x.w.Fset.Position(st.Pos()).String()})
	}
	return s
}

// escapes reports whether control can leave the statement other than by falling off its
// end: a return, a goto or labelled branch, or an unlabelled break/continue that is not
// enclosed by a loop (for continue) or by a loop, switch or select (for break) inside it.
func escapes(st ast.Stmt) bool {
	found := false
	var walk func(n ast.Node, inLoop, inBreakable bool)
	walk = func(n ast.Node, inLoop, inBreakable bool) {
		if n == nil || found {
			return
		}
		switch v := n.(type) {
		case *ast.FuncLit:
			return
		case *ast.ReturnStmt:
			found = true
			return
		case *ast.BranchStmt:
			switch {
			case v.Label != nil || v.Tok == token.GOTO || v.Tok == token.FALLTHROUGH:
				found = true
			case v.Tok == token.BREAK && !inBreakable:
				found = true
			case v.Tok == token.CONTINUE && !inLoop:
				found = true
			}
			return
		case *ast.ForStmt:
			walk(v.Init, inLoop, inBreakable)
			walk(v.Post, inLoop, inBreakable)
			walk(v.Body, true, true)
			return
		case *ast.RangeStmt:
			walk(v.Body, true, true)
			return
		case *ast.SwitchStmt:
			walk(v.Init, inLoop, inBreakable)
			walk(v.Body, inLoop, true)
			return
		case *ast.TypeSwitchStmt:
			walk(v.Init, inLoop, inBreakable)
			walk(v.Body, inLoop, true)
			return
		case *ast.SelectStmt:
			walk(v.Body, inLoop, true)
			return
		case *ast.LabeledStmt:
			// a label inside: branches to it stay inside only if we tracked labels; be
			// conservative
			found = true
			return
		}
		ast.Inspect(n, func(c ast.Node) bool {
			if c == n || c == nil {
				return c == n
			}
			walk(c, inLoop, inBreakable)
			return false
		})
	}
	walk(st, false, false)
	return found
}
