package main

// Frames for calls into code the engine does not see (dependencies, interface
// methods, function values). Such a callee can write a field T.f of a struct type
// T of the module only if
//   (a) a value containing or pointing to a T is among what it is handed (its
//       arguments' static types reach T), or
//   (b) the address of the field (or of the whole struct, through unsafe or a
//       whole-struct store) is taken somewhere in T's package, so that it may
//       have escaped earlier, or
//   (c) it obtains a T some other way: through a value hidden behind an interface
//       it holds, by calling back into the module, or by reflection.
// (a) and (b) are decided here from types and syntax. (c) is an assumption, listed
// in the evidence whenever a field is kept unchanged on its strength:
// "unknown callees reach module structs only through the static types of their
// arguments; no re-entrancy, no reflection".
// Only unexported fields are ever kept: exported ones, element memories of basic
// types and everything of types handed to the callee are forgotten.

import (
	"fmt"
	"go/ast"
	"go/token"
	"go/types"
	"os"
	"path/filepath"
	"runtime"
	"strings"
)

type fieldKey struct {
	pkg, typ, field string
	typeKey          string // memName of the struct type
}

// privateFieldOf parses a memory name "<pkg>.<Type>.<field>[.<sub>...]".
func privateFieldOf(mem string) (fieldKey, bool) {
	slash := strings.LastIndex(mem, "/")
	prefix, rest := "", mem
	if slash >= 0 {
		prefix, rest = mem[:slash+1], mem[slash+1:]
	}
	parts := strings.Split(rest, ".")
	if len(parts) < 3 {
		return fieldKey{}, false
	}
	pkg := prefix + parts[0]
	typeKey := pkg + "." + parts[1]
	if !strings.HasPrefix(pkg, "github.com/") {
		pkg = repoModule + "/" + pkg
	}
	typ, field := parts[1], parts[2]
	if strings.ContainsAny(typ, "[]*( ") || strings.ContainsAny(field, "[]*( ") || field == "" {
		return fieldKey{}, false
	}
	if ast.IsExported(field) || !strings.HasPrefix(pkg, repoModule) {
		return fieldKey{}, false
	}
	return fieldKey{pkg: pkg, typ: typ, field: field, typeKey: typeKey}, true
}

func (x *Exec) fieldIsPrivate(k fieldKey) bool {
	if v, ok := x.w.privCache[k]; ok {
		return v
	}
	res := x.computeFieldPrivate(k)
	if x.w.privCache == nil {
		x.w.privCache = map[fieldKey]bool{}
	}
	x.w.privCache[k] = res
	return res
}

// computeFieldPrivate: condition (b) above, over every file of the declaring package.
func (x *Exec) computeFieldPrivate(k fieldKey) bool {
	p := x.w.Pkgs[k.pkg]
	if p == nil || p.TypesInfo == nil || p.Types == nil {
		return false
	}
	tn, ok := p.Types.Scope().Lookup(k.typ).(*types.TypeName)
	if !ok {
		return false
	}
	named, ok := tn.Type().(*types.Named)
	if !ok || named.TypeParams().Len() > 0 {
		return false
	}
	st, ok := named.Underlying().(*types.Struct)
	if !ok {
		return false
	}
	var fld *types.Var
	for i := 0; i < st.NumFields(); i++ {
		if st.Field(i).Name() == k.field {
			fld = st.Field(i)
		}
	}
	if fld == nil || fld.Embedded() {
		return false
	}
	info := p.TypesInfo
	isT := func(t types.Type) bool {
		if t == nil {
			return false
		}
		if pt, ok := t.Underlying().(*types.Pointer); ok {
			t = pt.Elem()
		}
		return types.Identical(types.Unalias(t), named)
	}
	var touches func(e ast.Expr) bool
	touches = func(e ast.Expr) bool {
		switch v := ast.Unparen(e).(type) {
		case *ast.SelectorExpr:
			if sel := info.Selections[v]; sel != nil && sel.Kind() == types.FieldVal && sel.Obj() == fld {
				return true
			}
			return touches(v.X)
		case *ast.IndexExpr:
			return touches(v.X)
		case *ast.SliceExpr:
			return touches(v.X)
		}
		return false
	}
	priv := true
	for _, f := range p.Syntax {
		ast.Inspect(f, func(n ast.Node) bool {
			if !priv {
				return false
			}
			switch v := n.(type) {
			case *ast.UnaryExpr:
				if v.Op == token.AND && touches(v.X) {
					priv = false
				}
			case *ast.SliceExpr:
				// slicing an array field takes its address
				if _, isArr := info.TypeOf(v.X).Underlying().(*types.Array); isArr && touches(v.X) {
					priv = false
				}
			case *ast.CallExpr:
				// pointer-receiver method on the field (a value, not a pointer): takes its address
				if sel, isSel := ast.Unparen(v.Fun).(*ast.SelectorExpr); isSel {
					if s := info.Selections[sel]; s != nil && s.Kind() == types.MethodVal && touches(sel.X) {
						if sig, isSig := s.Obj().Type().(*types.Signature); isSig && sig.Recv() != nil {
							_, recvPtr := sig.Recv().Type().Underlying().(*types.Pointer)
							_, valPtr := info.TypeOf(sel.X).Underlying().(*types.Pointer)
							if recvPtr && !valPtr {
								priv = false
							}
						}
					}
				}
				// conversion of *T (or T) to unsafe.Pointer
				if tv, isConv := info.Types[v.Fun]; isConv && tv.IsType() && len(v.Args) == 1 {
					if b, isB := tv.Type.Underlying().(*types.Basic); isB && b.Kind() == types.UnsafePointer && isT(info.TypeOf(v.Args[0])) {
						priv = false
					}
				}
			}
			return true
		})
	}
	return priv
}

// reachOf adds the module struct types reachable from a static type (not through
// interfaces or function values).
func (x *Exec) reachOf(t types.Type, ws *writeSet, seen map[types.Type]bool, depth int) {
	if t == nil || ws.reachAll {
		return
	}
	t = types.Unalias(t)
	if seen[t] {
		return
	}
	seen[t] = true
	if depth > 12 {
		ws.reachAll = true
		return
	}
	switch u := t.(type) {
	case *types.Named:
		if _, isStruct := u.Underlying().(*types.Struct); isStruct {
			if ws.reach == nil {
				ws.reach = map[string]bool{}
			}
			ws.reach[memName(u)] = true
		}
		x.reachOf(u.Underlying(), ws, seen, depth+1)
	case *types.Pointer:
		x.reachOf(u.Elem(), ws, seen, depth+1)
	case *types.Slice:
		x.reachOf(u.Elem(), ws, seen, depth+1)
	case *types.Array:
		x.reachOf(u.Elem(), ws, seen, depth+1)
	case *types.Map:
		x.reachOf(u.Key(), ws, seen, depth+1)
		x.reachOf(u.Elem(), ws, seen, depth+1)
	case *types.Chan:
		x.reachOf(u.Elem(), ws, seen, depth+1)
	case *types.Struct:
		for i := 0; i < u.NumFields(); i++ {
			x.reachOf(u.Field(i).Type(), ws, seen, depth+1)
		}
	case *types.Basic:
		if u.Kind() == types.UnsafePointer {
			ws.reachAll = true
		}
	case *types.TypeParam:
		ws.reachAll = true
	case *types.Interface, *types.Signature, *types.Tuple:
		// assumption (c)
	}
}

// markForeign records a call the engine cannot look into.
func (x *Exec) markForeign(info *types.Info, call *ast.CallExpr, ws *writeSet) {
	if debugHavoc {
		fmt.Fprintln(os.Stderr, "pvc: foreign call:", exprText(x.w.Fset, call.Fun))
	}
	ws.foreign = true
	seen := map[types.Type]bool{}
	for _, a := range call.Args {
		x.reachOf(info.TypeOf(a), ws, seen, 0)
	}
	if sel, ok := ast.Unparen(call.Fun).(*ast.SelectorExpr); ok {
		if s := info.Selections[sel]; s != nil && s.Kind() == types.MethodVal {
			x.reachOf(info.TypeOf(sel.X), ws, seen, 0)
		}
	}
}

// calleeWrites over-approximates what a call to fn may write: the syntactic write
// set of its body when the body is in the module, a foreign call otherwise. nil
// when nothing better than "everything" is known.
func (x *Exec) calleeWrites(fr *Frame, fn *types.Func, call *ast.CallExpr) *writeSet {
	if call == nil || fr == nil {
		return nil
	}
	ws := &writeSet{vars: map[types.Object]bool{}, mems: map[string]bool{}}
	d, ok := x.w.Decls[fn]
	if ok && d.Decl.Body != nil && d.Pkg.TypesInfo != nil {
		// (a pointer-receiver method writes through its receiver: field writes in its
		// body are memory writes, found by the scan)
		x.scanWrites(d.Pkg.TypesInfo, d.Decl.Body, ws, map[*types.Func]bool{fn: true}, 0)
		if fn.Pkg() != nil && strings.HasPrefix(fn.Pkg().Path(), repoModule) {
			return ws
		}
		if !ws.all && !ws.foreign {
			return ws // a dependency whose loaded source is informative
		}
		ws = &writeSet{vars: map[types.Object]bool{}, mems: map[string]bool{}}
	}
	x.markForeign(fr.info, call, ws)
	return ws
}

// applyCalleeWrites forgets what a callee with write set ws (not "everything") may
// have written.
func (x *Exec) applyCalleeWrites(s *State, ws *writeSet, name string) {
	for m := range ws.mems {
		x.noteWriteAll(s, "call to "+name+" may write "+m)
		if srt, ok := x.memSorts[m]; ok {
			s.mem[m] = x.ctx.Fresh("mem$"+m, outerSort(srt))
		} else {
			delete(s.mem, m)
			x.pendingHavoc(s, m)
		}
	}
	if ws.foreign {
		x.havocForeign(s, ws, "call to "+name)
	}
}

// markAll: the code may write anything (PVC_DEBUG=1 says where that was decided).
func (ws *writeSet) markAll() {
	if debugHavoc && !ws.all {
		_, file, line, _ := runtime.Caller(1)
		fmt.Fprintf(os.Stderr, "pvc: write set becomes 'everything' at %s:%d\n", filepath.Base(file), line)
	}
	ws.all = true
}

func (ws *writeSet) absorb(sub *writeSet) {
	if sub.all {
		ws.all = true
	}
	for m := range sub.mems {
		ws.mems[m] = true
		// written by other code: not confined to the regions of this code's own slices
		if ws.whole == nil {
			ws.whole = map[string]bool{}
		}
		ws.whole[m] = true
	}
	if sub.foreign {
		ws.foreign = true
		if sub.reachAll {
			ws.reachAll = true
		}
		for k := range sub.reach {
			if ws.reach == nil {
				ws.reach = map[string]bool{}
			}
			ws.reach[k] = true
		}
	}
}

// havocForeign forgets what the foreign calls recorded in ws may have written:
// every memory except private fields of struct types they were not handed.
func (x *Exec) havocForeign(s *State, ws *writeSet, why string) {
	kept := 0
	for name := range s.mem {
		if !ws.reachAll {
			if k, ok := privateFieldOf(name); ok && !ws.reach[k.typeKey] && x.fieldIsPrivate(k) {
				kept++
				continue
			}
		}
		s.mem[name] = x.ctx.Fresh("mem$"+name, outerSort(x.memSorts[name]))
	}
	if kept > 0 {
		x.note("assumed", foreignAssumption)
	}
	s.memEpoch = x.newEpoch()
	if ws.reachAll {
		s.fReachAll = true
	}
	for k := range ws.reach {
		if s.fReach == nil {
			s.fReach = map[string]bool{}
		}
		s.fReach[k] = true
	}
	x.noteWriteAll(s, why)
}

const foreignAssumption = "unknown callees (dependencies, interface methods) reach structs of the module only through the static types of their arguments (no re-entrancy into the module, no reflection): unexported fields whose address is never taken, of struct types not handed to the callee, are unchanged by it"
