package main

import (
	"fmt"
	"go/ast"
	"go/token"
	"go/types"
	"strings"
)

func fullName(fn *types.Func) string {
	return fn.FullName()
}

// pureExternal lists dependency functions that have no effect on tracked state.
func pureExternal(fn *types.Func) bool {
	n := fullName(fn)
	switch {
	case strings.HasPrefix(n, "(*sync.Mutex)."), strings.HasPrefix(n, "(*sync.RWMutex)."),
		strings.HasPrefix(n, "(*sync.WaitGroup)."), strings.HasPrefix(n, "(*sync.Cond)."),
		strings.HasPrefix(n, "(*sync.Pool)."),
		strings.HasPrefix(n, "fmt."), strings.HasPrefix(n, "(*log."), strings.HasPrefix(n, "log."),
		strings.HasPrefix(n, "github.com/cockroachdb/errors."),
		strings.HasPrefix(n, "github.com/cockroachdb/redact."),
		strings.HasPrefix(n, "errors."), strings.HasPrefix(n, "bytes.Equal"), strings.HasPrefix(n, "bytes.Compare"),
		strings.HasPrefix(n, "bytes.HasPrefix"), strings.HasPrefix(n, "time."), strings.HasPrefix(n, "(time."),
		strings.HasPrefix(n, "github.com/cockroachdb/crlib/crtime."), strings.HasPrefix(n, "(github.com/cockroachdb/crlib/crtime."),
		strings.HasPrefix(n, "math/bits."), strings.HasPrefix(n, "math."), strings.HasPrefix(n, "cmp."),
		strings.HasPrefix(n, "runtime."), strings.HasPrefix(n, "strings."), strings.HasPrefix(n, "strconv."),
		strings.HasPrefix(n, "github.com/cockroachdb/pebble/internal/invariants."),
		strings.HasPrefix(n, "(github.com/cockroachdb/pebble/internal/base.Logger)."),
		strings.HasPrefix(n, "github.com/cockroachdb/pebble/internal/crc."), strings.HasPrefix(n, "(github.com/cockroachdb/pebble/internal/crc.CRC)."),
		strings.HasPrefix(n, "unsafe."),
		strings.HasPrefix(n, "github.com/cockroachdb/pebble/internal/bitflip."),
		n == "(*bytes.Buffer).Len", n == "(*bytes.Buffer).Bytes", n == "(*bytes.Buffer).String", n == "(*bytes.Buffer).Cap",
		strings.HasSuffix(n, ".logf"), strings.HasSuffix(n, "Logger).Infof"), strings.HasSuffix(n, "Logger).Errorf"),
		strings.HasSuffix(n, "Logger).Eventf"):
		return true
	}
	return false
}

// externalWrites lists dependency functions that write only through the given
// slice arguments.
func externalWrites(fn *types.Func) ([]int, bool) {
	n := fullName(fn)
	switch n {
	case "io.ReadFull":
		return []int{1}, true
	case "encoding/binary.PutUvarint", "encoding/binary.PutVarint":
		return []int{0}, true
	case "(encoding/binary.littleEndian).PutUint16", "(encoding/binary.littleEndian).PutUint32", "(encoding/binary.littleEndian).PutUint64",
		"(encoding/binary.bigEndian).PutUint16", "(encoding/binary.bigEndian).PutUint32", "(encoding/binary.bigEndian).PutUint64":
		return []int{0}, true
	case "(encoding/binary.littleEndian).Uint16", "(encoding/binary.littleEndian).Uint32", "(encoding/binary.littleEndian).Uint64",
		"(encoding/binary.bigEndian).Uint16", "(encoding/binary.bigEndian).Uint32", "(encoding/binary.bigEndian).Uint64",
		"encoding/binary.Uvarint", "encoding/binary.Varint":
		return nil, true
	}
	return nil, false
}

func (x *Exec) atomicOp(fn *types.Func) string {
	n := fullName(fn)
	if !strings.HasPrefix(n, "(*sync/atomic.") {
		if strings.HasPrefix(n, "(*github.com/cockroachdb/pebble/internal/base.AtomicSeqNum).") {
			return strings.TrimPrefix(n, "(*github.com/cockroachdb/pebble/internal/base.AtomicSeqNum).")
		}
		return ""
	}
	i := strings.LastIndex(n, ").")
	return n[i+2:]
}

// call evaluates a call expression.
func (x *Exec) call(s *State, fr *Frame, call *ast.CallExpr) Value {
	info := fr.info
	// conversion
	if tv, ok := info.Types[call.Fun]; ok && tv.IsType() {
		if at, ok := info.Types[call.Args[0]]; ok && at.IsNil() {
			return x.zero(s, tv.Type) // T(nil)
		}
		v := x.expr(s, fr, call.Args[0])
		return x.convert(s, fr, v, info.TypeOf(call.Args[0]), tv.Type, call.Pos(), exprText(x.w.Fset, call))
	}
	fun := ast.Unparen(call.Fun)
	// builtins
	if id, ok := fun.(*ast.Ident); ok {
		if b, ok := info.Uses[id].(*types.Builtin); ok {
			return x.builtin(s, fr, b.Name(), call)
		}
	}
	if sel, ok := fun.(*ast.SelectorExpr); ok {
		if b, ok := info.Uses[sel.Sel].(*types.Builtin); ok {
			return x.builtin(s, fr, "unsafe."+b.Name(), call)
		}
	}
	if id, ok := fun.(*ast.Ident); ok && strings.HasPrefix(id.Name, "pvc_") {
		switch id.Name {
		case "pvc_forall", "pvc_exists":
			return x.quantifier(s, fr, id.Name, call)
		case "pvc_old":
			if x.entry == nil {
				unsup("old() outside a postcondition")
			}
			x.spec++
			x.noObl++
			defer func() { x.spec--; x.noObl-- }()
			es := x.entry.fork()
			enp, enf := len(es.pc), len(es.facts)
			ov := x.expr(es, fr, call.Args[0])
			x.adopt(s, es, enp, enf, nil, nil)
			return ov
		}
	}
	callText := exprText(x.w.Fset, call.Fun)
	site := x.siteOrdinal(fr, callText)
	x.beforeCall(s, fr, call, callText, site)
	var res Value
	// append-like calls (contract directive): remember the first argument's region
	var appendBase *SliceV
	appendArg := -1
	if cf := x.contractFrame(fr); cf != nil && x.spec == 0 && len(call.Args) > 0 {
		for _, t := range cf.contract.AppendLike {
			if t == callText {
				// the destination is the first argument of slice type
				for k, a := range call.Args {
					if _, isSlice := info.TypeOf(a).Underlying().(*types.Slice); isSlice {
						appendArg = k
						break
					}
				}
				if appendArg < 0 {
					unsup("appendlike call %s: no slice argument", callText)
				}
				if sv, ok := x.specExpr(s, fr, call.Args[appendArg]).(*SliceV); ok {
					appendBase = sv
				} else {
					unsup("appendlike call %s: destination argument is not a slice value", callText)
				}
			}
		}
	}
	defer func() {
		if appendBase == nil || res == nil {
			return
		}
		var out *SliceV
		switch r := res.(type) {
		case *SliceV:
			out = r
		case *TupleV:
			if len(r.V) > 0 {
				out, _ = r.V[0].(*SliceV)
			}
		}
		if out == nil {
			return
		}
		et := info.TypeOf(call.Args[appendArg]).Underlying().(*types.Slice).Elem()
		fresh := x.newRegion(s, memName(et), "alloc")
		s.assume(Or(And(Eq(out.Rgn, appendBase.Rgn), Not(Eq(appendBase.Cap, I64(0)))), Eq(out.Rgn, fresh), Eq(out.Cap, I64(0))))
		x.note("assumed", "the call "+callText+" follows the append idiom: the slice it returns lies in its first argument's memory or in fresh memory")
	}()
	if cf := x.contractFrame(fr); cf != nil && x.spec == 0 {
		for _, t := range cf.contract.FrameCalls {
			if t != callText {
				continue
			}
			sig, _ := info.TypeOf(call.Fun).Underlying().(*types.Signature)
			if sig == nil {
				unsup("frame call of non-function %s", callText)
			}
			x.args(s, fr, call, sig)
			x.note("assumed", "the call "+callText+" (code outside the engine's view) changes no memory the contract of "+x.topName+" talks about; its result is unknown")
			res = x.resultOf(s, sig, "framed")
			x.afterCall(s, fr, call, callText, site, res)
			return res
		}
	}
	fn := x.staticCallee(info, call)
	if fn != nil {
		var recv Value
		var recvT types.Type
		if sel, ok := fun.(*ast.SelectorExpr); ok {
			if si := info.Selections[sel]; si != nil && si.Kind() == types.MethodVal {
				recv, recvT = x.receiver(s, fr, sel, si, fn)
			}
		}
		args := x.args(s, fr, call, fn.Type().(*types.Signature))
		havoc := false
		if cf := x.contractFrame(fr); cf != nil && x.spec == 0 {
			for _, t := range cf.contract.HavocCalls {
				if t == callText {
					havoc = true
				}
			}
		}
		if havoc {
			x.note("assumed", "preconditions of "+fullName(fn)+" are not checked at the call "+callText+" (treated as unknown code there)")
			res = x.havocCall(s, fr, fn.Origin(), fn.Type().(*types.Signature), args, call)
		} else {
			res = x.invoke(s, fr, fn, recv, recvT, args, call)
		}
	} else {
		// function value
		fvv := x.expr(s, fr, call.Fun)
		sig, _ := info.TypeOf(call.Fun).Underlying().(*types.Signature)
		if sig == nil {
			unsup("call of non-function %s", callText)
		}
		args := x.args(s, fr, call, sig)
		res = x.callValue(s, fr, fvv, sig, args, call, callText)
	}
	x.afterCall(s, fr, call, callText, site, res)
	return res
}

func (x *Exec) siteOrdinal(fr *Frame, text string) int {
	f := fr
	for f != nil && f.contract == nil {
		f = f.parent
	}
	if f == nil {
		return 0
	}
	// ordinal in source order is computed syntactically, not dynamically
	return 0
}

// ghost directives --------------------------------------------------------

func (x *Exec) contractFrame(fr *Frame) *Frame {
	// a function literal written inside the contract's function is part of its text:
	// call-site directives apply there too (not inside inlined named callees)
	for f := fr; f != nil; f = f.parent {
		if f.contract != nil {
			return f
		}
		if f.fn != nil {
			return nil
		}
	}
	return nil
}

func (x *Exec) siteMatches(c *Contract, d *Directive, call *ast.CallExpr, text string) bool {
	if strings.HasSuffix(d.CallText, ")") {
		// "f(args)": the directive names the call with its argument text
		if normCallText(exprText(x.w.Fset, call)) != d.CallText {
			return false
		}
	} else if d.CallText != text {
		return false
	}
	if d.CallOrd == 0 {
		return true
	}
	for _, site := range x.w.callSites(c, d) {
		if site == call {
			return true
		}
	}
	return false
}

func (x *Exec) beforeCall(s *State, fr *Frame, call *ast.CallExpr, text string, site int) {
	cf := x.contractFrame(fr)
	if cf == nil || x.spec > 0 {
		return
	}
	c := cf.contract
	for _, bc := range c.BefCall {
		if x.siteMatches(c, bc.Dir, call, text) {
			g := x.specCond(s, fr, bc.Expr)
			x.oblige(s, "order", fmt.Sprintf("order@%s%s#%d", bc.Dir.CallText, ordSuffix(bc.Dir.CallOrd), bc.Dir.Ord), g, call.Pos(), "before call "+bc.Dir.CallText+": "+bc.Text)
		}
	}
}

func (x *Exec) afterCall(s *State, fr *Frame, call *ast.CallExpr, text string, site int, res Value) {
	cf := x.contractFrame(fr)
	if cf == nil || x.spec > 0 {
		return
	}
	c := cf.contract
	for _, ce := range c.Clobbers[text] {
		x.havocLvalue(s, fr, ce.Expr, false)
	}
	for _, oc := range c.OnCall {
		d := oc.Dir
		if !x.siteMatches(c, d, call, text) {
			continue
		}
		var gv *GhostVar
		for _, g := range c.Ghost {
			if g.Name == d.Name {
				gv = g
			}
		}
		if gv == nil {
			x.errs = append(x.errs, fmt.Sprintf("on call %s: unknown ghost variable %s", d.CallText, d.Name))
			continue
		}
		nv := x.specExpr(s, fr, oc.Expr)
		if d.Ret != "" {
			// condition on the error component of the result
			var errT Term
			found := false
			switch r := res.(type) {
			case *Scalar:
				if r.T.Sort == SErr {
					errT, found = r.T, true
				} else if r.T.Sort == SBool && d.Ret == "ok" {
					cur := x.readVar(s, gv.Var)
					x.setVar(s, fr, gv.Var, x.mergeValue(r.T, nv, cur))
					continue
				}
			case *TupleV:
				for _, e := range r.V {
					if sc, ok := e.(*Scalar); ok && sc.T.Sort == SErr {
						errT, found = sc.T, true
					}
				}
			}
			if !found {
				x.errs = append(x.errs, fmt.Sprintf("on call %s returning %s: call has no error result", d.CallText, d.Ret))
				continue
			}
			isNil := Eq(errT, x.ctx.Const("err$nil", SErr))
			cnd := isNil
			if d.Ret == "err" {
				cnd = Not(isNil)
			} else if re, ok := c.RetExpr[d]; ok {
				sv := x.specExpr(s, fr, re.Expr).(*Scalar).T
				cnd = And(Not(isNil), Or(Eq(errT, sv), Eq(x.errRoot(errT), x.errRoot(sv))))
			}
			cur := x.readVar(s, gv.Var)
			x.setVar(s, fr, gv.Var, x.mergeValue(cnd, nv, cur))
		} else {
			x.setVar(s, fr, gv.Var, nv)
		}
	}
}

// -------------------------------------------------------------------------

func (x *Exec) receiver(s *State, fr *Frame, sel *ast.SelectorExpr, si *types.Selection, fn *types.Func) (Value, types.Type) {
	sig := fn.Type().(*types.Signature)
	rt := sig.Recv().Type()
	_, wantPtr := rt.Underlying().(*types.Pointer)
	if _, isIface := rt.Underlying().(*types.Interface); isIface {
		return x.expr(s, fr, sel.X), rt
	}
	xt := fr.info.TypeOf(sel.X)
	// walk embedded path except the last (method) index
	idx := si.Index()
	idx = idx[:len(idx)-1]
	if len(idx) == 0 {
		_, havePtr := xt.Underlying().(*types.Pointer)
		switch {
		case wantPtr && havePtr:
			return x.expr(s, fr, sel.X), rt
		case wantPtr && !havePtr:
			// (&x).M()
			loc := x.lvalue(s, fr, sel.X)
			switch l := loc.(type) {
			case *heapLoc:
				p := l.prefix
				if p == memName(xt) {
					p = ""
				}
				return &PtrV{Rgn: l.rgn, Off: l.off, Prov: p}, rt
			}
			// a package-level variable of a dependency's type (sync.Pool, sync.Once, ...)
			// used as the receiver of one of its own methods: its state is not tracked,
			// the receiver is an opaque non-nil pointer
			if id, ok := ast.Unparen(sel.X).(*ast.Ident); ok {
				if v, ok := fr.info.Uses[id].(*types.Var); ok && v.Parent() == v.Pkg().Scope() &&
					fn.Pkg() != nil && !strings.HasPrefix(fn.Pkg().Path(), repoModule) {
					return &PtrV{Rgn: x.ctx.Const("global$"+sanitize(v.Pkg().Path()+"."+v.Name()), SBV64), Off: I64(0)}, rt
				}
			}
			unsup("pointer-receiver call on non-addressable or non-escaping value %s", exprText(x.w.Fset, sel.X))
		case !wantPtr && havePtr:
			pv := x.expr(s, fr, sel.X).(*PtrV)
			x.nilCheck(s, fr, pv.Rgn, sel.Pos(), exprText(x.w.Fset, sel))
			pt := xt.Underlying().(*types.Pointer)
			pl := x.ptrLoc(pv, pt.Elem())
			return x.load(s, pl.prefix, pt.Elem(), pl.rgn, pl.off), rt
		default:
			return x.expr(s, fr, sel.X), rt
		}
	}
	// promoted method through embedded fields: build a selector path manually
	t := xt
	var loc Loc
	if _, isPtr := t.Underlying().(*types.Pointer); isPtr || !x.addressable(fr, sel.X) {
		loc = &valLoc{v: x.expr(s, fr, sel.X)}
	} else {
		loc = x.lvalue(s, fr, sel.X)
	}
	for _, i := range idx {
		if pt, ok := t.Underlying().(*types.Pointer); ok {
			pv := x.readLoc(s, loc, t).(*PtrV)
			x.nilCheck(s, fr, pv.Rgn, sel.Pos(), exprText(x.w.Fset, sel))
			t = pt.Elem()
			loc = x.ptrLoc(pv, t)
		}
		st := t.Underlying().(*types.Struct)
		f := st.Field(i)
		switch l := loc.(type) {
		case *varLoc:
			loc = &varLoc{obj: l.obj, path: append(append([]int(nil), l.path...), i)}
		case *heapLoc:
			loc = &heapLoc{prefix: l.prefix + "." + f.Name(), rgn: l.rgn, off: l.off}
		case *valLoc:
			loc = &valLoc{v: l.v.(*StructV).F[i]}
		}
		t = f.Type()
	}
	_, havePtr := t.Underlying().(*types.Pointer)
	switch {
	case wantPtr && !havePtr:
		if hl, ok := loc.(*heapLoc); ok {
			return &PtrV{Rgn: hl.rgn, Off: hl.off, Prov: hl.prefix}, rt
		}
		unsup("promoted pointer-receiver call")
	case !wantPtr && havePtr:
		pv := x.readLoc(s, loc, t).(*PtrV)
		pt := t.Underlying().(*types.Pointer)
		pl := x.ptrLoc(pv, pt.Elem())
		return x.load(s, pl.prefix, pt.Elem(), pl.rgn, pl.off), rt
	}
	return x.readLoc(s, loc, t), rt
}

func (x *Exec) args(s *State, fr *Frame, call *ast.CallExpr, sig *types.Signature) []Value {
	var out []Value
	np := sig.Params().Len()
	isTuple := false
	if len(call.Args) == 1 {
		_, isTuple = fr.info.TypeOf(call.Args[0]).(*types.Tuple)
	}
	if len(call.Args) == 1 && np > 1 && isTuple {
		tv, ok := x.exprMulti(s, fr, call.Args[0], np).(*TupleV)
		if !ok {
			unsup("multi-value argument")
		}
		return tv.V
	}
	for i, a := range call.Args {
		v := x.expr(s, fr, a)
		var pt types.Type
		if sig.Variadic() && i >= np-1 {
			if call.Ellipsis.IsValid() {
				pt = sig.Params().At(np - 1).Type()
			} else {
				pt = sig.Params().At(np - 1).Type().(*types.Slice).Elem()
			}
		} else if i < np {
			pt = sig.Params().At(i).Type()
		}
		if pt != nil {
			if _, isTP := pt.(*types.TypeParam); !isTP {
				v = x.convertTo(s, fr, v, fr.info.TypeOf(a), pt)
			}
		}
		out = append(out, x.copyValue(s, fr.info.TypeOf(a), v))
	}
	return out
}

func (x *Exec) resultOf(s *State, sig *types.Signature, hint string) Value {
	n := sig.Results().Len()
	if n == 0 {
		return &TupleV{}
	}
	mk := func(t types.Type, i int) Value {
		v := x.fresh(s, t, fmt.Sprintf("%s$r%d", hint, i))
		x.assumeWF(s, t, v)
		return v
	}
	if n == 1 {
		return mk(sig.Results().At(0).Type(), 0)
	}
	tv := &TupleV{}
	for i := 0; i < n; i++ {
		tv.V = append(tv.V, mk(sig.Results().At(i).Type(), i))
	}
	return tv
}

// callValue calls a function value.
func (x *Exec) callValue(s *State, fr *Frame, fv Value, sig *types.Signature, args []Value, call *ast.CallExpr, text string) Value {
	switch f := fv.(type) {
	case *FuncV:
		if f.Lit != nil {
			return x.inlineLit(s, fr, f.Lit, args, call)
		}
		if f.Fn != nil {
			var rt types.Type
			if f.Recv != nil {
				rt = f.Fn.Type().(*types.Signature).Recv().Type()
			}
			return x.invoke(s, fr, f.Fn, f.Recv, rt, args, call)
		}
		return x.callback(s, fr, f.Sym, text, sig, args)
	case *Scalar:
		if f.T.Sort == SFn {
			return x.callback(s, fr, f.T, text, sig, args)
		}
	}
	unsup("call of %T", fv)
	return nil
}

// callback models a call through an unknown function value as an uninterpreted
// function of the function identity and the argument values (pure), provided all
// arguments are scalars (opaque mode); otherwise the result is unknown.
func (x *Exec) callback(s *State, fr *Frame, id Term, text string, sig *types.Signature, args []Value) Value {
	allScalar := true
	var ts []Term
	ts = append(ts, id)
	for _, a := range args {
		sc, ok := a.(*Scalar)
		if !ok {
			allScalar = false
			break
		}
		ts = append(ts, sc.T)
	}
	if sig.Results().Len() != 1 {
		allScalar = false
	}
	if !allScalar {
		x.note("abstracted", "call through function value "+text+": result unknown, memory unchanged (callbacks assumed pure)")
		return x.resultOf(s, sig, "cb")
	}
	rt := sig.Results().At(0).Type()
	rs, ok := x.scalarSort(rt)
	if !ok {
		x.note("abstracted", "call through function value "+text+": non-scalar result unknown")
		return x.resultOf(s, sig, "cb")
	}
	name := "cb$" + sanitize(types.TypeString(sig, qual))
	if len(name) > 60 {
		name = name[:60] + fmt.Sprintf("%x", fnvHash(name))
	}
	res := x.ctx.UF(name, rs, ts...)
	x.note("assumed", "function values called in "+x.topName+" are pure and deterministic ("+text+")")
	x.callbackAxioms(name, id, sig, rs)
	return &Scalar{T: res}
}

func fnvHash(s string) uint32 {
	var h uint32 = 2166136261
	for i := 0; i < len(s); i++ {
		h ^= uint32(s[i])
		h *= 16777619
	}
	return h
}

// callbackAxioms adds the declared axioms (total_order, equal_of) for a callback UF.
func (x *Exec) callbackAxioms(uf string, id Term, sig *types.Signature, rs Sort) {
	// find a callback directive whose kind applies to this signature: keyed by result sort and arity
	c := x.top
	for name, d := range c.Callback {
		key := uf + ":" + d.Arg + ":" + name
		if x.cbAxioms[key] {
			continue
		}
		switch d.Arg {
		case "total_order":
			if rs != SBV64 || sig.Params().Len() != 2 {
				continue
			}
			x.cbAxioms[key] = true
			as, _ := x.scalarSort(sig.Params().At(0).Type())
			f := func(a, b string) string { return fmt.Sprintf("(%s f?o %s %s)", uf, a, b) }
			z := "(_ bv0 64)"
			q := func(vars string, body string) string {
				return fmt.Sprintf("(forall ((f?o Fn) %s) %s)", vars, body)
			}
			v := func(n string) string { return fmt.Sprintf("(%s %s)", n, as) }
			x.ctx.AddAxiom(key+":refl", []string{uf}, q(v("a?o"), fmt.Sprintf("(= %s %s)", f("a?o", "a?o"), z)))
			x.ctx.AddAxiom(key+":antisym", []string{uf}, q(v("a?o")+" "+v("b?o"),
				fmt.Sprintf("(and (= (bvslt %s %s) (bvsgt %s %s)) (= (= %s %s) (= %s %s)))", f("a?o", "b?o"), z, f("b?o", "a?o"), z, f("a?o", "b?o"), z, f("b?o", "a?o"), z)))
			x.ctx.AddAxiom(key+":trans", []string{uf}, q(v("a?o")+" "+v("b?o")+" "+v("c?o"),
				fmt.Sprintf("(and (=> (and (bvsle %s %s) (bvsle %s %s)) (bvsle %s %s)) (=> (and (bvsle %s %s) (bvslt %s %s)) (bvslt %s %s)) (=> (and (bvslt %s %s) (bvsle %s %s)) (bvslt %s %s)))",
					f("a?o", "b?o"), z, f("b?o", "c?o"), z, f("a?o", "c?o"), z,
					f("a?o", "b?o"), z, f("b?o", "c?o"), z, f("a?o", "c?o"), z,
					f("a?o", "b?o"), z, f("b?o", "c?o"), z, f("a?o", "c?o"), z)))
			x.note("assumed", "comparer axioms: every func([]byte, []byte) int called in "+x.topName+" is a total preorder (reflexive, antisymmetric in sign, transitive)")
		case "equal_of_compare":
			// Equal(a,b) <==> Compare(a,b) == 0 for the same comparer: needs both UFs; handled where both exist
		}
	}
}

// invoke calls a declared function.
func (x *Exec) invoke(s *State, fr *Frame, fn *types.Func, recv Value, recvT types.Type, args []Value, call *ast.CallExpr) Value {
	orig := fn.Origin()
	sig := fn.Type().(*types.Signature)
	name := fullName(orig)
	if v, ok := x.special(s, fr, orig, name, recv, args, call, sig); ok {
		return v
	}
	// helper functions of the synthetic file
	if strings.HasPrefix(orig.Name(), "pvc_") {
		return x.pvcHelper(s, fr, orig.Name(), args, call)
	}
	// contract: modular call
	if c, ok := x.w.Contracts[orig]; ok && c != x.top && len(c.Errs) == 0 {
		if x.spec == 0 || !x.inlinable(orig) || c.Trusted {
			return x.modularCall(s, fr, c, recv, args, call)
		}
	}
	// inline
	if x.inlinable(orig) {
		if x.top != nil && x.top.Abstract && x.spec == 0 {
			// abstract mode: a callee that leaves the subset is replaced by an unknown
			// call (havoc over-approximates it) instead of abstracting the whole
			// calling statement, which would also skip the directives attached to it
			if v, ok := x.tryInline(s, fr, orig, sig, recv, args, call); ok {
				return v
			}
			return x.havocCall(s, fr, orig, sig, args, call)
		}
		return x.inline(s, fr, orig, sig, recv, args, call)
	}
	if dep := ownStateDependency(orig); dep != "" && x.spec == 0 {
		if v, ok := x.ownStateCall(s, fr, orig, sig, recv, recvT, args, call, dep); ok {
			return v
		}
	}
	// unknown: havoc
	return x.havocCall(s, fr, orig, sig, args, call)
}

// ownStateDependency lists methods of container types of dependencies that are
// assumed (not proved: their source is outside the module) to write nothing but
// the container itself: the receiver and heap objects of the dependency's own
// types. It returns the import path prefix of those types.
func ownStateDependency(fn *types.Func) string {
	n := fullName(fn)
	switch {
	case strings.HasPrefix(n, "(*github.com/RaduBerinde/axisds/v3/regiontree.T["):
		return "github.com/RaduBerinde/"
	}
	return ""
}

// ownStateCall models a call to such a method. Function arguments are run by the
// callee, so they must write no memory themselves (checked syntactically);
// otherwise the call is treated as unknown.
func (x *Exec) ownStateCall(s *State, fr *Frame, fn *types.Func, sig *types.Signature, recv Value, recvT types.Type, args []Value, call *ast.CallExpr, dep string) (Value, bool) {
	for _, a := range args {
		fv, ok := a.(*FuncV)
		if !ok {
			if sc, ok := a.(*Scalar); ok && sc.T.Sort == SFn {
				return nil, false
			}
			continue
		}
		switch {
		case fv.Lit != nil:
			ws := &writeSet{vars: map[types.Object]bool{}, mems: map[string]bool{}}
			x.scanWrites(fv.Lit.info, fv.Lit.lit.Body, ws, map[*types.Func]bool{}, 0)
			if ws.all || ws.foreign || len(ws.mems) > 0 {
				return nil, false
			}
			for o := range ws.vars {
				// assignments to captured variables
				if o.Pos() < fv.Lit.lit.Pos() || o.Pos() > fv.Lit.lit.End() {
					return nil, false
				}
			}
		case fv.Fn != nil:
			if !x.syntacticallyPure(fv.Fn) {
				return nil, false
			}
		default:
			return nil, false
		}
	}
	name := fullName(fn)
	x.note("assumed", name+" (dependency: assumed to write only its receiver and heap objects of types under "+dep+")")
	if p, ok := recv.(*PtrV); ok && recvT != nil {
		if pt, ok := recvT.Underlying().(*types.Pointer); ok {
			prefix := p.Prov
			if prefix == "" {
				prefix = memName(pt.Elem())
			}
			nv := x.fresh(s, pt.Elem(), "recv$"+sanitize(fn.Name()))
			x.assumeWF(s, pt.Elem(), nv)
			x.store(s, prefix, pt.Elem(), p.Rgn, p.Off, nv)
		}
	}
	for mn := range s.mem {
		if strings.Contains(mn, dep) {
			s.mem[mn] = x.ctx.Fresh("mem$"+mn, outerSort(x.memSorts[mn]))
		}
	}
	return x.resultOf(s, sig, sanitize(fn.Name())), true
}

func (x *Exec) tryInline(s *State, fr *Frame, fn *types.Func, sig *types.Signature, recv Value, args []Value, call *ast.CallExpr) (v Value, ok bool) {
	nObl := len(x.obls)
	nErr := len(x.errs)
	spec0, noObl0, entry0 := x.spec, x.noObl, x.entry
	t := s.fork()
	defer func() {
		if r := recover(); r != nil {
			u, isU := r.(unsupported)
			if !isU {
				panic(r)
			}
			x.obls = x.obls[:nObl]
			x.errs = x.errs[:nErr]
			// whatever the unwinding skipped: back to the mode we were in
			x.spec, x.noObl, x.entry = spec0, noObl0, entry0
			x.note("abstracted", fmt.Sprintf("%s could not be inlined (%s)", fullName(fn), u.msg))
			v, ok = nil, false
		}
	}()
	v = x.inline(t, fr, fn, sig, recv, args, call)
	*s = *t
	return v, true
}

func (x *Exec) havocCall(s *State, fr *Frame, fn *types.Func, sig *types.Signature, args []Value, call *ast.CallExpr) Value {
	name := fullName(fn)
	if sig.TypeParams().Len() > 0 && call != nil && fr != nil {
		// generic function: take the instantiated signature at the call site
		if isig, ok := fr.info.TypeOf(call.Fun).(*types.Signature); ok && isig.TypeParams().Len() == 0 {
			sig = isig
		}
	}
	if pureExternal(fn) || x.spec > 0 {
		x.note("abstracted", name+" (result unknown, no effect on tracked state)")
	} else if x.syntacticallyPure(fn) {
		x.note("abstracted", name+" (no contract; writes no memory syntactically: result unknown, memory unchanged)")
	} else if ws := x.calleeWrites(fr, fn, call); ws != nil && !ws.all {
		x.applyCalleeWrites(s, ws, name)
		if ws.foreign {
			x.note("abstracted", name+" (result unknown; memory forgotten except private fields of structs it is not handed)")
		} else {
			x.note("abstracted", name+" (result unknown; the memories its body may write are forgotten)")
		}
	} else {
		x.note("abstracted", name+" (result unknown, all memory forgotten)")
		x.havocAllMem(s, "call to "+name)
	}
	return x.resultOf(s, sig, sanitize(fn.Name()))
}

// syntacticallyPure reports whether a module function without a contract writes
// no memory at all (by the same syntactic over-approximation used for loops).
func (x *Exec) syntacticallyPure(fn *types.Func) bool {
	d, ok := x.w.Decls[fn]
	if !ok || d.Decl.Body == nil || d.Pkg.TypesInfo == nil {
		return false
	}
	if fn.Pkg() == nil || !strings.HasPrefix(fn.Pkg().Path(), repoModule) {
		return false
	}
	ws := &writeSet{vars: map[types.Object]bool{}, mems: map[string]bool{}}
	x.scanWrites(d.Pkg.TypesInfo, d.Decl.Body, ws, map[*types.Func]bool{fn: true}, 0)
	return !ws.all && !ws.foreign && len(ws.mems) == 0
}

func (x *Exec) inlinable(fn *types.Func) bool {
	d, ok := x.w.Decls[fn]
	if !ok || d.Decl.Body == nil || d.Pkg.TypesInfo == nil {
		return false
	}
	for _, f := range x.stack {
		if f == fn {
			return false
		}
	}
	if len(x.stack) > 12 {
		return false
	}
	// outside the module only small leaf packages are inlined from source; everything
	// else is an unknown callee (havoc) or an engine model
	if p := fn.Pkg(); p != nil && !strings.HasPrefix(p.Path(), repoModule) {
		ok := false
		for _, allow := range []string{"encoding/binary", "math/bits", "bytes", "cmp", "time", "math", "unicode/utf8", "github.com/cockroachdb/crlib/"} {
			if p.Path() == allow || strings.HasPrefix(p.Path(), allow) && strings.HasSuffix(allow, "/") {
				ok = true
			}
		}
		if !ok {
			return false
		}
		if sig := fn.Type().(*types.Signature); sig.Recv() != nil && strings.Contains(sig.Recv().Type().String(), "bytes.Buffer") {
			return false // bytes.Buffer is an opaque dependency object
		}
	}
	// generic functions: only when type parameters do not influence representation; reject
	if sig := fn.Type().(*types.Signature); sig.TypeParams().Len() > 0 || sig.RecvTypeParams().Len() > 0 {
		return false
	}
	// loops require a contract
	hasLoop := false
	cnt := 0
	ast.Inspect(d.Decl.Body, func(n ast.Node) bool {
		switch n.(type) {
		case *ast.ForStmt, *ast.RangeStmt:
			hasLoop = true
		case *ast.GoStmt, *ast.SelectStmt, *ast.TypeSwitchStmt:
			hasLoop = true
		case ast.Stmt:
			cnt++
		}
		return true
	})
	if hasLoop || cnt > 80 {
		return false
	}
	return true
}

func (x *Exec) inline(s *State, fr *Frame, fn *types.Func, sig *types.Signature, recv Value, args []Value, call *ast.CallExpr) Value {
	d := x.w.Decls[fn]
	x.note("inlined", fullName(fn))
	nf := &Frame{fn: fn, name: fullName(fn), info: d.Pkg.TypesInfo, pkg: d.Pkg, sig: fn.Type().(*types.Signature), parent: fr, callOrd: map[string]int{}}
	x.stack = append(x.stack, fn)
	defer func() { x.stack = x.stack[:len(x.stack)-1] }()
	x.bindParams(s, nf, d.Decl.Recv, d.Decl.Type, recv, args)
	return x.runBody(s, nf, d.Decl.Body, call.Pos())
}

func (x *Exec) inlineLit(s *State, fr *Frame, li *litInfo, args []Value, call *ast.CallExpr) Value {
	sig := li.info.TypeOf(li.lit).(*types.Signature)
	nf := &Frame{name: fmt.Sprintf("funclit%d", li.id), info: li.info, pkg: li.pkg, sig: sig, parent: fr, callOrd: map[string]int{}}
	x.bindParams(s, nf, nil, li.lit.Type, nil, args)
	if c, ok := x.w.LitC[li.lit]; ok {
		// (after the parameters: ghost initialisers may mention them)
		nf.contract = c
		x.initGhost(s, nf, c)
	}
	return x.runBody(s, nf, li.lit.Body, call.Pos())
}

func (x *Exec) bindParams(s *State, nf *Frame, recvFL *ast.FieldList, ft *ast.FuncType, recv Value, args []Value) {
	if recvFL != nil && len(recvFL.List) > 0 && len(recvFL.List[0].Names) > 0 {
		id := recvFL.List[0].Names[0]
		if obj := nf.info.Defs[id]; obj != nil && id.Name != "_" {
			x.declare(s, nf, obj, recv)
		}
	}
	i := 0
	if ft.Params != nil {
		for _, fl := range ft.Params.List {
			_, variadic := fl.Type.(*ast.Ellipsis)
			names := fl.Names
			if len(names) == 0 {
				i++
				continue
			}
			for _, id := range names {
				obj := nf.info.Defs[id]
				if variadic {
					// pack remaining args (only the spread or empty forms are supported)
					if i < len(args) {
						if len(args)-i == 1 {
							if _, ok := args[i].(*SliceV); ok {
								if obj != nil {
									x.declare(s, nf, obj, args[i])
								}
								i++
								continue
							}
						}
						// pack the remaining arguments into a fresh slice
						st, ok := obj.Type().Underlying().(*types.Slice)
						if !ok || obj == nil {
							unsup("variadic call with packed arguments")
						}
						n := int64(len(args) - i)
						rgn := x.newRegion(s, memName(st.Elem()), "alloc")
						for k := int64(0); k < n; k++ {
							x.store(s, memName(st.Elem()), st.Elem(), rgn, I64(k), args[i+int(k)])
						}
						x.declare(s, nf, obj, &SliceV{Rgn: rgn, Off: I64(0), Len: I64(n), Cap: I64(n)})
						i = len(args)
						continue
					}
					if obj != nil {
						x.declare(s, nf, obj, x.zero(s, obj.Type()))
					}
					continue
				}
				if obj != nil && id.Name != "_" {
					if i >= len(args) {
						unsup("argument count mismatch")
					}
					x.declare(s, nf, obj, args[i])
				}
				i++
			}
		}
	}
	nf.results = nil
	if ft.Results != nil {
		for _, fl := range ft.Results.List {
			if len(fl.Names) == 0 {
				nf.results = append(nf.results, types.NewVar(token.NoPos, nil, "", nf.info.TypeOf(fl.Type)))
				continue
			}
			for _, id := range fl.Names {
				obj, _ := nf.info.Defs[id].(*types.Var)
				if obj == nil {
					obj = types.NewVar(token.NoPos, nil, "_", nf.info.TypeOf(fl.Type))
				} else {
					x.declare(s, nf, obj, x.zero(s, obj.Type()))
				}
				nf.results = append(nf.results, obj)
			}
		}
	}
}

// runBody executes a function body and merges its return states into s.
func (x *Exec) runBody(s *State, nf *Frame, body *ast.BlockStmt, pos token.Pos) Value {
	x.depth++
	defer func() { x.depth-- }()
	end := x.block(s, nf, body.List)
	if end != nil && !end.infeasible() {
		// fell off the end
		var vals []Value
		if nf.sig.Results().Len() > 0 {
			for _, rv := range nf.results {
				vals = append(vals, x.readVar(end, rv))
			}
		}
		x.runDefers(end, nf)
		if nf.sig.Results().Len() > 0 && len(nf.defers) > 0 {
			vals = nil
			for _, rv := range nf.results {
				vals = append(vals, x.readVar(end, rv))
			}
		}
		nf.rets = append(nf.rets, retState{s: end, vals: vals, pos: body.Rbrace})
	}
	if nf.isTop {
		return nil
	}
	// merge return states
	var live []retState
	for _, r := range nf.rets {
		if !r.s.infeasible() {
			live = append(live, r)
		}
	}
	if len(live) == 0 {
		// callee never returns (panics on every path)
		s.pc = append(s.pc, False)
		return x.resultOf(s, nf.sig, "dead")
	}
	nres := nf.sig.Results().Len()
	// attach results as temporary variables so merge handles them
	tmp := make([]*types.Var, nres)
	for i := 0; i < nres; i++ {
		tmp[i] = types.NewVar(token.NoPos, nil, fmt.Sprintf("ret$%d", i), nf.sig.Results().At(i).Type())
	}
	var states []*State
	for _, r := range live {
		for i := 0; i < nres; i++ {
			r.s.vars[tmp[i]] = r.vals[i]
		}
		states = append(states, r.s)
	}
	m := x.mergeAll(states)
	var out Value
	if nres == 1 {
		out = m.vars[tmp[0]]
	} else {
		tv := &TupleV{}
		for i := 0; i < nres; i++ {
			tv.V = append(tv.V, m.vars[tmp[i]])
		}
		out = tv
	}
	for i := 0; i < nres; i++ {
		delete(m.vars, tmp[i])
	}
	*s = *m
	return out
}

func (x *Exec) initGhost(s *State, fr *Frame, c *Contract) {
	for _, g := range c.Ghost {
		v := x.specExpr(s, fr, g.Init.Expr)
		// the initial value has the ghost variable's declared type (an untyped constant
		// would otherwise keep its default width)
		if sc, ok := v.(*Scalar); ok && sc.T.Sort.IsBV() {
			if want, ok := x.scalarSort(g.Var.Type()); ok && want.IsBV() && want != sc.T.Sort {
				v = &Scalar{T: Resize(sc.T, want.Width(), isSigned(g.Var.Type()))}
			}
		}
		s.vars[g.Var] = v
	}
}

// modularCall uses the callee's contract.
func (x *Exec) modularCall(s *State, fr *Frame, c *Contract, recv Value, args []Value, call *ast.CallExpr) Value {
	name := funcDisplayName(c)
	nf := &Frame{fn: c.Fn, name: name, info: c.Pkg.TypesInfo, pkg: c.Pkg, sig: c.Fn.Type().(*types.Signature), parent: fr, callOrd: map[string]int{}}
	// bind parameters in a scratch scope: parameter objects are unique to the callee
	saved := map[types.Object]Value{}
	bind := func(obj types.Object, v Value) {
		if obj == nil {
			return
		}
		if old, ok := s.vars[obj]; ok {
			saved[obj] = old
		}
		s.vars[obj] = v
	}
	if c.Decl.Recv != nil && len(c.Decl.Recv.List) > 0 && len(c.Decl.Recv.List[0].Names) > 0 {
		bind(c.Pkg.TypesInfo.Defs[c.Decl.Recv.List[0].Names[0]], recv)
	}
	i := 0
	for _, fl := range c.Decl.Type.Params.List {
		if len(fl.Names) == 0 {
			i++
			continue
		}
		for _, id := range fl.Names {
			if i < len(args) {
				bind(c.Pkg.TypesInfo.Defs[id], args[i])
			}
			i++
		}
	}
	// requires
	// Inside a contract expression the precondition is not checked, so it must
	// not be learned either: there the postconditions hold under it.
	var specReqs []Term
	for _, r := range c.Requires {
		g := x.specCond(s, nf, r.Expr)
		if x.spec == 0 {
			x.oblige(s, "requires", fmt.Sprintf("requires@%s#%d", name, r.Dir.Ord), g, call.Pos(), "precondition of "+name+": "+r.Text)
			s.assume(g)
		} else {
			specReqs = append(specReqs, g)
		}
	}
	pre := s.fork()
	// frame
	if c.Block.Has("pure") || len(c.Assigns) == 0 && !x.writesHeap(c) {
		// nothing changes
	} else if len(c.Assigns) > 0 {
		for _, a := range c.Assigns {
			x.havocLvalue(s, nf, a.Expr, strings.HasSuffix(a.Text, "[*]"))
		}
	} else if ws := x.calleeWrites(fr, c.Fn, call); ws != nil && !ws.all {
		// no assigns clause: what the body may write, syntactically
		x.applyCalleeWrites(s, ws, name)
	} else {
		x.havocAllMem(s, "callee "+name+" has no assigns clause")
	}
	// results
	var res Value
	sig := nf.sig
	nres := sig.Results().Len()
	vals := make([]Value, nres)
	// a trusted pure function of scalar arguments is a function: equal arguments give
	// equal results (its results are uninterpreted functions of the arguments)
	var fnArgs []Term
	functional := c.Trusted && c.Block.Has("pure") && recv == nil
	if functional {
		for _, a := range args {
			sc, ok := a.(*Scalar)
			if !ok {
				functional = false
				break
			}
			fnArgs = append(fnArgs, sc.T)
		}
	}
	for k := 0; k < nres; k++ {
		t := sig.Results().At(k).Type()
		if rs, ok := x.scalarSort(t); ok && functional && len(fnArgs) > 0 {
			vals[k] = &Scalar{T: x.ctx.UF("fn$"+sanitize(fullName(c.Fn))+fmt.Sprintf("$r%d", k), rs, fnArgs...)}
			x.note("assumed", name+" is a deterministic function of its arguments (trusted, pure)")
		} else {
			vals[k] = x.fresh(s, t, sanitize(c.Block.Name)+fmt.Sprintf("$r%d", k))
		}
		x.assumeWF(s, t, vals[k])
		bind(c.Results[k], vals[k])
	}
	if nres == 1 {
		res = vals[0]
	} else {
		res = &TupleV{V: vals}
	}
	// ghost variables of the callee that its postconditions mention: the callee's own
	// proof exhibits their final values; to the caller they are some values
	// (existentially quantified: fresh symbols)
	for _, g := range c.Ghost {
		gv := x.fresh(s, g.Var.Type(), "ghost$"+g.Name)
		x.assumeWF(s, g.Var.Type(), gv)
		bind(g.Var, gv)
	}
	defer func() {
		for _, g := range c.Ghost {
			if old, ok := saved[g.Var]; ok {
				s.vars[g.Var] = old
			} else {
				delete(s.vars, g.Var)
			}
		}
	}()
	// ensures
	savedEntry := x.entry
	x.entry = pre
	for _, e := range c.Ensures {
		et := x.specCond(s, nf, e.Expr)
		if len(specReqs) > 0 {
			et = Implies(And(specReqs...), et)
		}
		s.assume(x.ctx.Share(et))
	}
	x.entry = savedEntry
	for obj := range s.vars {
		_ = obj
	}
	// unbind
	unbind := func(obj types.Object) {
		if obj == nil {
			return
		}
		if old, ok := saved[obj]; ok {
			s.vars[obj] = old
		} else {
			delete(s.vars, obj)
		}
	}
	if c.Decl.Recv != nil && len(c.Decl.Recv.List) > 0 && len(c.Decl.Recv.List[0].Names) > 0 {
		unbind(c.Pkg.TypesInfo.Defs[c.Decl.Recv.List[0].Names[0]])
	}
	for _, fl := range c.Decl.Type.Params.List {
		for _, id := range fl.Names {
			unbind(c.Pkg.TypesInfo.Defs[id])
		}
	}
	for k := 0; k < nres; k++ {
		unbind(c.Results[k])
	}
	x.note("trusted", "")
	delete(x.trusted, "")
	x.inlined["contract:"+name] = true
	return res
}

// writesHeap reports whether a contracted function may write memory (syntactically).
func (x *Exec) writesHeap(c *Contract) bool {
	ws := &writeSet{vars: map[types.Object]bool{}, mems: map[string]bool{}}
	x.scanWrites(c.Pkg.TypesInfo, c.Body, ws, map[*types.Func]bool{c.Fn: true}, 0)
	return ws.all || ws.foreign || len(ws.mems) > 0
}

// havocLvalue forgets the location(s) denoted by an assigns entry.
func (x *Exec) havocLvalue(s *State, fr *Frame, e ast.Expr, elems bool) {
	t := fr.info.TypeOf(e)
	x.noObl++
	defer func() { x.noObl-- }()
	if st, ok := t.Underlying().(*types.Slice); ok && elems && !(x.opaque && isByteSlice(t)) {
		// elements of the slice (up to cap)
		sv := x.expr(s, fr, e).(*SliceV)
		x.havocRange(s, st.Elem(), sv.Rgn, sv.Off, sv.Cap)
		return
	}
	if at, ok := t.Underlying().(*types.Array); ok {
		av := x.expr(s, fr, e).(*ArrayRef)
		x.havocRange(s, at.Elem(), av.Rgn, av.Off, I64(av.N))
		return
	}
	loc := x.lvalue(s, fr, e)
	v := x.fresh(s, t, "assigned")
	x.assumeWF(s, t, v)
	x.writeLoc(s, fr, loc, t, v)
}

// -------------------------------------------------------------------------
// pvc_* helpers

func (x *Exec) pvcHelper(s *State, fr *Frame, name string, args []Value, call *ast.CallExpr) Value {
	switch name {
	case "pvc_implies":
		a, b := args[0].(*Scalar).T, args[1].(*Scalar).T
		return &Scalar{T: x.recordParts(Implies(a, b), "imp", a, b)}
	case "pvc_iff":
		a, b := args[0].(*Scalar).T, args[1].(*Scalar).T
		return &Scalar{T: x.recordParts(Eq(a, b), "iff", a, b)}
	case "pvc_assert":
		g := args[0].(*Scalar).T
		x.oblige(s, "assert", fmt.Sprintf("assert@%s", shortText(exprText(x.w.Fset, call.Args[0]))), g, call.Pos(), exprText(x.w.Fset, call.Args[0]))
		s.assume(g)
		return &TupleV{}
	case "pvc_suffix":
		// a is the tail of b: same memory, a ends where b ends (an empty a is a tail of
		// anything; a nil b has only the empty tail)
		a, ok1 := args[0].(*SliceV)
		b, ok2 := args[1].(*SliceV)
		if !ok1 || !ok2 {
			unsup("pvc_suffix on opaque slices")
		}
		same := And(Eq(a.Rgn, b.Rgn), Eq(Add64(a.Off, a.Len), Add64(b.Off, b.Len)), Sle(a.Len, b.Len))
		return &Scalar{T: x.ctx.Share(Or(Eq(a.Len, I64(0)), same))}
	case "pvc_same":
		// the same byte string: equal contents and nil-ness (opaque mode), the same slice
		// header otherwise
		switch a := args[0].(type) {
		case *Scalar:
			return &Scalar{T: Eq(a.T, args[1].(*Scalar).T)}
		case *SliceV:
			b := args[1].(*SliceV)
			return &Scalar{T: x.ctx.Share(And(Eq(a.Rgn, b.Rgn), Eq(a.Off, b.Off), Eq(a.Len, b.Len)))}
		}
		unsup("pvc_same on %T", args[0])
	case "pvc_samebase":
		// the two slices start at the same address (same allocation, same offset) and have
		// the same capacity: one is a re-slicing of the other from its first element
		a, ok1 := args[0].(*SliceV)
		b, ok2 := args[1].(*SliceV)
		if !ok1 || !ok2 {
			unsup("pvc_samebase on non-slices")
		}
		return &Scalar{T: x.ctx.Share(And(Eq(a.Rgn, b.Rgn), Eq(a.Off, b.Off), Eq(a.Cap, b.Cap)))}
	case "pvc_overlap":
		// the two slices may share memory (same region, both with capacity)
		a, ok1 := args[0].(*SliceV)
		b, ok2 := args[1].(*SliceV)
		if !ok1 || !ok2 {
			unsup("pvc_overlap on non-slices")
		}
		return &Scalar{T: x.ctx.Share(And(Eq(a.Rgn, b.Rgn), Not(Eq(a.Cap, I64(0))), Not(Eq(b.Cap, I64(0)))))}
	case "pvc_local":
		a, ok := args[0].(*SliceV)
		if !ok {
			unsup("pvc_local on a non-slice")
		}
		return &Scalar{T: x.ctx.Share(Or(Eq(a.Cap, I64(0)), Ule(BVLit(firstAlloc, 64), a.Rgn)))}
	case "pvc_assume":
		s.assume(args[0].(*Scalar).T)
		x.note("assumed", "explicit assume in ghost code: "+exprText(x.w.Fset, call.Args[0]))
		return &TupleV{}
	}
	unsup("helper %s", name)
	return nil
}

// quantifier / old need the unevaluated argument; they are intercepted in special().

func (x *Exec) quantifier(s *State, fr *Frame, kind string, call *ast.CallExpr) Value {
	lit, ok := ast.Unparen(call.Args[0]).(*ast.FuncLit)
	if !ok {
		unsup("quantifier body must be a function literal")
	}
	var binders []string
	var bounds []Term
	var objs []types.Object
	for _, fl := range lit.Type.Params.List {
		for _, id := range fl.Names {
			obj := fr.info.Defs[id]
			t := obj.Type()
			srt, ok := x.scalarSort(t)
			if !ok {
				unsup("quantified variable of type %s", t)
			}
			x.ctx.n++
			nm := fmt.Sprintf("%s?%d", sanitize(id.Name), x.ctx.n)
			x.ctx.noteSort(srt)
			binders = append(binders, fmt.Sprintf("(%s %s)", nm, srt))
			x.bound[obj] = &Scalar{T: Term{S: nm, Sort: srt}}
			objs = append(objs, obj)
		}
	}
	defer func() {
		for _, o := range objs {
			delete(x.bound, o)
		}
	}()
	if len(lit.Body.List) != 1 {
		unsup("quantifier body must be a single return")
	}
	rs, ok := lit.Body.List[0].(*ast.ReturnStmt)
	if !ok || len(rs.Results) != 1 {
		unsup("quantifier body must be a single return")
	}
	qs := s.fork()
	qnp, qnf := len(qs.pc), len(qs.facts)
	body := func() Term {
		// (restored by defer: an unsupported construct in the body unwinds through here)
		x.spec++
		x.noObl++
		defer func() { x.spec--; x.noObl-- }()
		return x.cond(qs, fr, rs.Results[0])
	}()
	_ = bounds
	var bts []Term
	for _, o := range objs {
		bts = append(bts, x.bound[o].(*Scalar).T)
	}
	x.adopt(s, qs, qnp, qnf, nil, bts)
	q := "forall"
	if kind == "pvc_exists" {
		q = "exists"
	}
	return &Scalar{T: Term{S: fmt.Sprintf("(%s (%s) %s)", q, strings.Join(binders, " "), body.S), Sort: SBool}}
}

// -------------------------------------------------------------------------
// builtins

func (x *Exec) builtin(s *State, fr *Frame, name string, call *ast.CallExpr) Value {
	info := fr.info
	switch name {
	case "len", "cap":
		t := info.TypeOf(call.Args[0])
		if pt, ok := t.Underlying().(*types.Pointer); ok {
			if at, ok := pt.Elem().Underlying().(*types.Array); ok {
				return &Scalar{T: I64(at.Len())}
			}
		}
		if at, ok := t.Underlying().(*types.Array); ok {
			return &Scalar{T: I64(at.Len())}
		}
		v := x.expr(s, fr, call.Args[0])
		switch a := v.(type) {
		case *SliceV:
			if name == "len" {
				return &Scalar{T: a.Len}
			}
			return &Scalar{T: a.Cap}
		case *ArrayRef:
			return &Scalar{T: I64(a.N)}
		case *Scalar:
			switch a.T.Sort {
			case SStr:
				return &Scalar{T: x.strlen(a.T)}
			case SBytes:
				if name == "len" {
					return &Scalar{T: x.bytesLen(a.T)}
				}
				c := x.ctx.UF("bytes$cap", SBV64, a.T)
				return &Scalar{T: c}
			case SBV64:
				// map or channel
				n := x.ctx.Fresh("len", SBV64)
				s.assume(Sle(I64(0), n))
				return &Scalar{T: n}
			}
		}
		unsup("len of %T", v)
	case "min", "max":
		t := info.TypeOf(call)
		cur := x.expr(s, fr, call.Args[0]).(*Scalar).T
		signed := isSigned(t)
		for _, a := range call.Args[1:] {
			o := x.expr(s, fr, a).(*Scalar).T
			if o.Sort != cur.Sort {
				if o.IsC {
					o = Resize(o, cur.Sort.Width(), true)
				} else if cur.IsC {
					cur = Resize(cur, o.Sort.Width(), true)
				}
			}
			var c Term
			if name == "min" {
				c = cmpTerm(token.LSS, o, cur, signed)
			} else {
				c = cmpTerm(token.GTR, o, cur, signed)
			}
			cur = x.ctx.Share(Ite(c, o, cur))
		}
		return &Scalar{T: cur}
	case "panic":
		if len(call.Args) > 0 {
			x.noObl++
			func() {
				defer func() { x.noObl--; recover() }()
				x.expr(s.fork(), fr, call.Args[0])
			}()
		}
		if x.top.NoPanic && x.spec == 0 {
			x.oblige(s, "panic", "panic@"+shortText(exprText(x.w.Fset, call)), False, call.Pos(), "explicit panic is unreachable: "+exprText(x.w.Fset, call))
		}
		s.pc = append(s.pc, False)
		return &TupleV{}
	case "copy":
		dt := info.TypeOf(call.Args[0])
		st := dt.Underlying().(*types.Slice)
		dst, ok1 := x.expr(s, fr, call.Args[0]).(*SliceV)
		srcv := x.expr(s, fr, call.Args[1])
		if !ok1 {
			unsup("copy into opaque slice")
		}
		switch src := srcv.(type) {
		case *SliceV:
			n := x.ctx.Share(Ite(Slt(src.Len, dst.Len), src.Len, dst.Len))
			x.copyElems(s, st.Elem(), dst.Rgn, dst.Off, src.Rgn, src.Off, n)
			return &Scalar{T: n}
		case *Scalar:
			// copy from string
			ln := x.strlen(src.T)
			n := x.ctx.Share(Ite(Slt(ln, dst.Len), ln, dst.Len))
			x.havocRange(s, st.Elem(), dst.Rgn, dst.Off, n)
			return &Scalar{T: n}
		}
		unsup("copy source")
	case "append":
		return x.appendBuiltin(s, fr, call)
	case "make":
		t := info.TypeOf(call)
		switch u := t.Underlying().(type) {
		case *types.Slice:
			lv := x.expr(s, fr, call.Args[1]).(*Scalar)
			ln := Resize(lv.T, 64, isSigned(info.TypeOf(call.Args[1])))
			cp := ln
			if len(call.Args) > 2 {
				cv := x.expr(s, fr, call.Args[2]).(*Scalar)
				cp = Resize(cv.T, 64, isSigned(info.TypeOf(call.Args[2])))
			}
			if x.spec == 0 {
				// makeslice panics if len < 0, len > cap or the size exceeds the allocator limit
				es := x.sizes.Sizeof(u.Elem())
				if es == 0 {
					es = 1
				}
				lim := BVLit(makeLimit/uint64(es), 64)
				ok := And(Sle(I64(0), ln), Sle(ln, cp), Ule(cp, lim))
				text := exprText(x.w.Fset, call)
				if x.top.NoPanic {
					x.oblige(s, "make", "make@"+shortText(text), ok, call.Pos(), text+": size within the allocator limit")
				}
				s.assume(ok)
			}
			if x.opaque && isByteSlice(t) {
				b := x.ctx.Fresh("bytes$make", SBytes)
				s.assume(Eq(x.bytesLen(b), ln))
				s.assume(Not(x.bytesIsNil(b)))
				return &Scalar{T: b}
			}
			rgn := x.newRegion(s, memName(u.Elem()), "alloc")
			x.fillZero(s, u.Elem(), rgn, I64(0), cp)
			return &SliceV{Rgn: rgn, Off: I64(0), Len: ln, Cap: cp}
		case *types.Map, *types.Chan:
			for _, a := range call.Args[1:] {
				x.expr(s, fr, a)
			}
			r := x.ctx.Fresh("make", SBV64)
			s.assume(Ne(r, I64(0)))
			return &Scalar{T: r}
		}
	case "new":
		t := info.TypeOf(call.Args[0])
		rgn := x.newRegion(s, memName(t), "alloc")
		x.store(s, memName(t), t, rgn, I64(0), x.zero(s, t))
		return &PtrV{Rgn: rgn, Off: I64(0)}
	case "clear":
		t := info.TypeOf(call.Args[0])
		if st, ok := t.Underlying().(*types.Slice); ok {
			sv := x.expr(s, fr, call.Args[0]).(*SliceV)
			x.fillZero(s, st.Elem(), sv.Rgn, sv.Off, sv.Len)
			return &TupleV{}
		}
		x.expr(s, fr, call.Args[0])
		return &TupleV{}
	case "delete":
		for _, a := range call.Args {
			x.expr(s, fr, a)
		}
		return &TupleV{}
	case "print", "println":
		return &TupleV{}
	case "unsafe.Pointer":
	case "unsafe.Add":
		p := x.expr(s, fr, call.Args[0]).(*PtrV)
		kv := x.expr(s, fr, call.Args[1]).(*Scalar)
		k := Resize(kv.T, 64, isSigned(info.TypeOf(call.Args[1])))
		prov := p.Prov
		if prov == "" {
			// an unsafe.Pointer of unknown origin: pointer arithmetic is in bytes
			prov = "uint8"
			x.note("assumed", "unsafe.Pointer values of unknown origin point into byte memory")
		}
		if prov != "uint8" {
			unsup("unsafe.Add on pointer into %q memory", p.Prov)
		}
		return &PtrV{Rgn: p.Rgn, Off: x.ctx.Share(Add64(p.Off, k)), Prov: prov}
	case "unsafe.SliceData":
		sv, ok := x.expr(s, fr, call.Args[0]).(*SliceV)
		if !ok {
			unsup("unsafe.SliceData of opaque slice")
		}
		st := info.TypeOf(call.Args[0]).Underlying().(*types.Slice)
		return &PtrV{Rgn: sv.Rgn, Off: sv.Off, Prov: memName(st.Elem())}
	case "unsafe.Slice":
		p := x.expr(s, fr, call.Args[0]).(*PtrV)
		nv := x.expr(s, fr, call.Args[1]).(*Scalar)
		n := Resize(nv.T, 64, isSigned(info.TypeOf(call.Args[1])))
		pt := info.TypeOf(call.Args[0]).Underlying().(*types.Pointer)
		if p.Prov != "" && p.Prov != memName(pt.Elem()) {
			unsup("unsafe.Slice reinterpreting %s memory as %s", p.Prov, pt.Elem())
		}
		return &SliceV{Rgn: p.Rgn, Off: p.Off, Len: n, Cap: n}
	case "unsafe.Sizeof", "unsafe.Offsetof", "unsafe.Alignof":
		unsup("%s should be constant", name)
	case "unsafe.String", "unsafe.StringData":
		unsup("builtin %s", name)
	case "real", "imag", "complex", "close", "recover":
		unsup("builtin %s", name)
	}
	unsup("builtin %s", name)
	return nil
}

func (x *Exec) appendBuiltin(s *State, fr *Frame, call *ast.CallExpr) Value {
	info := fr.info
	t := info.TypeOf(call.Args[0])
	st, ok := t.Underlying().(*types.Slice)
	if !ok {
		unsup("append to %s", t)
	}
	bv := x.expr(s, fr, call.Args[0])
	if x.opaque && isByteSlice(t) {
		var argv []Value
		for _, a := range call.Args[1:] {
			argv = append(argv, x.expr(s, fr, a))
		}
		r := x.ctx.Fresh("bytes$append", SBytes)
		bt, okb := bv.(*Scalar)
		if okb && bt.T.Sort == SBytes && call.Ellipsis.IsValid() && len(argv) == 1 {
			if src, ok := argv[0].(*Scalar); ok && src.T.Sort == SBytes {
				// An opaque byte string stands for (contents, nil-ness); nothing in opaque mode
				// can tell two slices with the same contents apart (no indexing, no writes).
				// append(b, src...): same as b if src is empty; has the contents of src, and
				// is not nil, if b is empty and src is not.
				lb, ls := x.bytesLen(bt.T), x.bytesLen(src.T)
				s.assume(Eq(x.bytesLen(r), Add64(lb, ls)))
				s.assume(Implies(Eq(ls, I64(0)), Eq(r, bt.T)))
				s.assume(Implies(And(Eq(lb, I64(0)), Slt(I64(0), ls)), Eq(r, src.T)))
				s.assume(Implies(Slt(I64(0), Add64(lb, ls)), Not(x.bytesIsNil(r))))
				x.note("assumed", "opaque byte strings: append(empty, s...) has the contents of s")
				return &Scalar{T: r}
			}
		}
		x.note("abstracted", "append on opaque byte slices yields an unknown byte string")
		s.assume(Sle(I64(0), x.bytesLen(r)))
		s.assume(Ule(x.bytesLen(r), BVLit(maxObj, 64)))
		return &Scalar{T: r}
	}
	base := bv.(*SliceV)
	et := st.Elem()
	var addN Term
	var writeNew func(dstR, dstO Term)
	if call.Ellipsis.IsValid() {
		srcv := x.expr(s, fr, call.Args[1])
		switch src := srcv.(type) {
		case *SliceV:
			addN = src.Len
			writeNew = func(dstR, dstO Term) { x.copyElems(s, et, dstR, dstO, src.Rgn, src.Off, src.Len) }
		case *Scalar: // string...
			addN = x.strlen(src.T)
			writeNew = func(dstR, dstO Term) { x.havocRange(s, et, dstR, dstO, addN) }
		default:
			unsup("append spread of %T", srcv)
		}
	} else {
		var vals []Value
		for _, a := range call.Args[1:] {
			v := x.expr(s, fr, a)
			vals = append(vals, x.convertTo(s, fr, v, info.TypeOf(a), et))
		}
		addN = I64(int64(len(vals)))
		writeNew = func(dstR, dstO Term) {
			for i, v := range vals {
				x.store(s, memName(et), et, dstR, Add64(dstO, I64(int64(i))), v)
			}
		}
	}
	newLen := x.ctx.Share(Add64(base.Len, addN))
	fits := Sle(newLen, base.Cap)
	if fits.IsC && fits.C != 0 {
		writeNew(base.Rgn, Add64(base.Off, base.Len))
		return &SliceV{Rgn: base.Rgn, Off: base.Off, Len: newLen, Cap: base.Cap}
	}
	if !fits.IsC {
		if grow, ok := x.decide(); ok {
			if !grow {
				s.assume(fits)
				writeNew(base.Rgn, Add64(base.Off, base.Len))
				return &SliceV{Rgn: base.Rgn, Off: base.Off, Len: newLen, Cap: base.Cap}
			}
			s.assume(Not(fits))
			nc := x.ctx.Fresh("append$cap", SBV64)
			s.assume(Sle(newLen, nc))
			s.assume(Ule(nc, BVLit(maxObj, 64)))
			nb := x.newRegion(s, memName(et), "alloc")
			x.copyElems(s, et, nb, I64(0), base.Rgn, base.Off, base.Len)
			writeNew(nb, base.Len)
			return &SliceV{Rgn: nb, Off: I64(0), Len: newLen, Cap: nc}
		}
	}
	// in place
	var inPlace *State
	if !(fits.IsC && fits.C == 0) {
		inPlace = s.fork()
		inPlace.assume(fits)
		saved := *s
		*s = *inPlace
		writeNew(base.Rgn, Add64(base.Off, base.Len))
		*inPlace = *s
		*s = saved
	}
	// grow: fresh region, old contents copied
	grow := s.fork()
	grow.assume(Not(fits))
	nc := x.ctx.Fresh("append$cap", SBV64)
	var nb Term
	grow.assume(Sle(newLen, nc))
	grow.assume(Ule(nc, BVLit(maxObj, 64)))
	{
		saved := *s
		*s = *grow
		nb = x.newRegion(s, memName(et), "alloc")
		x.copyElems(s, et, nb, I64(0), base.Rgn, base.Off, base.Len)
		writeNew(nb, base.Len)
		*grow = *s
		*s = saved
	}
	res := types.NewVar(token.NoPos, nil, "append$res", t)
	grow.vars[res] = &SliceV{Rgn: nb, Off: I64(0), Len: newLen, Cap: nc}
	if inPlace != nil {
		inPlace.vars[res] = &SliceV{Rgn: base.Rgn, Off: base.Off, Len: newLen, Cap: base.Cap}
	}
	m := x.merge(inPlace, grow)
	out := m.vars[res]
	delete(m.vars, res)
	*s = *m
	return out
}
