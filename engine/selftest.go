package main

// Must-fail self test: every entry of /verif/selftest/mutants.json is a change to
// a source file of /repo that breaks a property (deliberate mutations, the
// seeded changes kept under /verif/seeded, reverts of the repaired defects). The
// change is applied in memory only (go/packages overlay), the property's check
// is run on it, and the check must report a violation on the expected
// obligation. An entry that is NOT reported means the engine or a contract has
// a hole (vacuity, unsound model): the self test fails. Entries marked
// "expect_miss" document changes the claimed kernel is known not to see.

import (
	"encoding/json"
	"flag"
	"fmt"
	"os"
	"os/exec"
	"path/filepath"
	"sort"
	"strings"
	"time"
)

type mutant struct {
	ID         string   `json:"id"`
	Property   string   `json:"property"`
	File       string   `json:"file,omitempty"`    // relative to /repo
	Find       string   `json:"find,omitempty"`    // exact text, must occur exactly once
	Replace    string   `json:"replace,omitempty"` // its replacement
	Patch      string   `json:"patch,omitempty"`   // or: a single-file unified diff, relative to /verif
	Funcs      []string `json:"funcs,omitempty"`   // verify only contract blocks whose key contains one of these
	Expect     string   `json:"expect,omitempty"`  // substring of a reported failure line ("reason obligation")
	ExpectMiss bool     `json:"expect_miss,omitempty"`
	Note       string   `json:"note,omitempty"`
}

var selftestFuncs []string

func mutantOverlay(m mutant) (map[string][]byte, error) {
	if m.Patch != "" {
		pp := filepath.Join(verifRoot, m.Patch)
		data, err := os.ReadFile(pp)
		if err != nil {
			return nil, err
		}
		file := ""
		for _, l := range strings.Split(string(data), "\n") {
			if strings.HasPrefix(l, "+++ b/") || strings.HasPrefix(l, "+++ a/") {
				if file != "" {
					return nil, fmt.Errorf("patch touches more than one file")
				}
				file = strings.TrimSpace(l[len("+++ b/"):])
			}
		}
		if file == "" {
			return nil, fmt.Errorf("no file in patch")
		}
		tmp, err := os.CreateTemp("", "pvc-mut-*.go")
		if err != nil {
			return nil, err
		}
		tmp.Close()
		defer os.Remove(tmp.Name())
		cmd := exec.Command("patch", "-s", "-o", tmp.Name(), filepath.Join(repoRoot, file), pp)
		if out, err := cmd.CombinedOutput(); err != nil {
			return nil, fmt.Errorf("patch: %v: %s", err, out)
		}
		res, err := os.ReadFile(tmp.Name())
		if err != nil {
			return nil, err
		}
		return map[string][]byte{filepath.Join(repoRoot, file): res}, nil
	}
	path := filepath.Join(repoRoot, m.File)
	data, err := os.ReadFile(path)
	if err != nil {
		return nil, err
	}
	if n := strings.Count(string(data), m.Find); n != 1 {
		return nil, fmt.Errorf("text to replace occurs %d times in %s (the code changed: update the mutant)", n, m.File)
	}
	return map[string][]byte{path: []byte(strings.Replace(string(data), m.Find, m.Replace, 1))}, nil
}

// mutantsFor runs the must-fail entries of one property (thorough tier) and
// returns what happened to each; it never changes the verdict of the check.
func mutantsFor(prop string) []map[string]string {
	data, err := os.ReadFile(filepath.Join(verifRoot, "selftest", "mutants.json"))
	if err != nil {
		return nil
	}
	var ms []mutant
	if json.Unmarshal(data, &ms) != nil {
		return nil
	}
	var out []map[string]string
	for _, m := range ms {
		if m.Property != prop {
			continue
		}
		ov, err := mutantOverlay(m)
		if err != nil {
			out = append(out, map[string]string{"id": m.ID, "outcome": "skipped", "detail": err.Error()})
			continue
		}
		dir, _ := os.MkdirTemp("", "pvc-selftest-")
		selftestFuncs = m.Funcs
		rc := runCheck(m.Property, "quick", 0, false, ov, dir)
		selftestFuncs = nil
		failed, _ := os.ReadFile(filepath.Join(dir, "failed.txt"))
		os.RemoveAll(dir)
		first := strings.SplitN(strings.TrimSpace(string(failed)), "\n", 2)[0]
		e := map[string]string{"id": m.ID, "change": m.Note}
		switch {
		case rc != 0:
			e["outcome"], e["detail"] = "reported", first
		case m.ExpectMiss:
			e["outcome"] = "not reported (documented limit of the claimed kernel)"
		default:
			e["outcome"] = "NOT REPORTED"
			fmt.Printf("SELFTEST-WARNING: the must-fail change %s is not reported by the check of %s\n", m.ID, prop)
		}
		out = append(out, e)
	}
	return out
}

func selftestMain(args []string) int {
	fs := flag.NewFlagSet("selftest", flag.ExitOnError)
	only := fs.String("only", "", "run only mutants whose id or property contains this text")
	fs.Parse(args)
	data, err := os.ReadFile(filepath.Join(verifRoot, "selftest", "mutants.json"))
	if err != nil {
		fmt.Println("selftest:", err)
		return 2
	}
	var ms []mutant
	if err := json.Unmarshal(data, &ms); err != nil {
		fmt.Println("selftest: mutants.json:", err)
		return 2
	}
	sort.SliceStable(ms, func(i, j int) bool { return ms[i].ID < ms[j].ID })
	bad := 0
	ran := 0
	for _, m := range ms {
		if *only != "" && !strings.Contains(m.ID, *only) && !strings.Contains(m.Property, *only) {
			continue
		}
		ran++
		t0 := time.Now()
		ov, err := mutantOverlay(m)
		if err != nil {
			fmt.Printf("SELFTEST-ERROR %s: %v\n", m.ID, err)
			bad++
			continue
		}
		dir, _ := os.MkdirTemp("", "pvc-selftest-")
		selftestFuncs = m.Funcs
		rc := runCheck(m.Property, "quick", 0, false, ov, dir)
		selftestFuncs = nil
		failed, _ := os.ReadFile(filepath.Join(dir, "failed.txt"))
		os.RemoveAll(dir)
		lines := strings.Split(strings.TrimSpace(string(failed)), "\n")
		hit := ""
		for _, l := range lines {
			if l != "" && (m.Expect == "" || strings.Contains(l, m.Expect)) {
				hit = l
				break
			}
		}
		secs := time.Since(t0).Seconds()
		switch {
		case m.ExpectMiss && rc == 0:
			fmt.Printf("selftest %-45s not reported, as documented (%.0fs): %s\n", m.ID, secs, m.Note)
		case m.ExpectMiss:
			fmt.Printf("selftest %-45s NOW REPORTED (%s): update mutants.json (%.0fs)\n", m.ID, lines[0], secs)
		case rc != 0 && hit != "":
			fmt.Printf("selftest %-45s reported: %s (%.0fs)\n", m.ID, hit, secs)
		case rc != 0:
			fmt.Printf("SELFTEST-FAIL %s: a violation was reported but not on %q: %v\n", m.ID, m.Expect, lines)
			bad++
		default:
			fmt.Printf("SELFTEST-FAIL %s: the change was NOT reported (property %s)\n", m.ID, m.Property)
			bad++
		}
	}
	fmt.Printf("selftest: %d mutants, %d failures\n", ran, bad)
	if bad > 0 {
		return 1
	}
	return 0
}
