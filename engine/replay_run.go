package main

// Replay: turn the solver's counterexample for a refuted obligation into
// concrete Go inputs, run the REAL function on them through an in-package test
// injected with `go test -overlay` (nothing is written to /repo), and evaluate
// the violated clause there.

import (
	"bytes"
	"context"
	"encoding/json"
	"fmt"
	"go/types"
	"os"
	"os/exec"
	"path/filepath"
	"regexp"
	"sort"
	"strconv"
	"strings"
	"time"
)

type modelOracle struct {
	query   string
	solver  string
	known   map[string]uint64
	pending map[string]bool
	decl    map[string]bool
	err     string
}

var declRe = regexp.MustCompile(`\(declare-fun ([^ ]+) `)

func newOracle(o *Obligation) *modelOracle {
	q, sv := o.Query, o.Solver
	if o.Result != "refuted" && o.CandQuery != "" {
		q, sv = o.CandQuery, o.CandSolver
	}
	m := &modelOracle{query: q, solver: strings.TrimSuffix(strings.TrimSuffix(sv, "(dup)"), "+inst"),
		known: map[string]uint64{}, pending: map[string]bool{}, decl: map[string]bool{}}
	for _, d := range declRe.FindAllStringSubmatch(q, -1) {
		m.decl[d[1]] = true
	}
	return m
}

var lenSymRe = regexp.MustCompile(`\(declare-fun ([^ ]*\.(?:len|cap)![0-9]+) \(\) \(_ BitVec 64\)\)`)

// shrink looks for a counterexample with small slices: the same query with all
// slice lengths bounded; the first bound that is still satisfiable is kept.
func (m *modelOracle) shrink(extra []Term) {
	var syms []string
	for _, d := range lenSymRe.FindAllStringSubmatch(m.query, -1) {
		syms = append(syms, d[1])
	}
	for _, t := range extra {
		// integer fields of the objects the parameters point to (positions, counts)
		declared := true
		for _, sym := range symRe.FindAllString(t.S, -1) {
			if (strings.Contains(sym, "!") || strings.HasPrefix(sym, "mem$")) && !m.decl[sym] {
				declared = false
			}
		}
		if declared && t.Sort == SBV64 {
			syms = append(syms, t.S)
		}
	}
	if len(syms) == 0 {
		return
	}
	var sp solverSpec
	for _, s := range solvers {
		if s.name == m.solver {
			sp = s
		}
	}
	if sp.bin == "" {
		sp = solvers[0]
	}
	dir, err := os.MkdirTemp("", "pvc-shrink-")
	if err != nil {
		return
	}
	defer os.RemoveAll(dir)
	for _, bound := range []int{4, 16, 64, 512} {
		var extra strings.Builder
		for _, s := range syms {
			fmt.Fprintf(&extra, "(assert (bvule %s (_ bv%d 64)))\n", s, bound)
		}
		q := strings.Replace(m.query, "(check-sat)\n", extra.String()+"(check-sat)\n", 1)
		file := filepath.Join(dir, fmt.Sprintf("s%d.smt2", bound))
		os.WriteFile(file, []byte(q), 0o644)
		// any solver may answer
		for _, try := range append([]solverSpec{sp}, solvers...) {
			r := runSolver(context.Background(), try, file, 10000, 0)
			if r.status == "sat" {
				m.query = q
				m.solver = try.name
				return
			}
			if r.status == "unsat" {
				break
			}
		}
	}
}

// val returns the model value of a bit-vector/bool term (0 until it is known).
func (m *modelOracle) val(t Term) uint64 {
	if t.IsC {
		return t.C
	}
	if v, ok := m.known[t.S]; ok {
		return v
	}
	// terms over symbols the query does not declare are unconstrained
	for _, sym := range symRe.FindAllString(t.S, -1) {
		if (strings.Contains(sym, "!") || strings.HasPrefix(sym, "mem$")) && !m.decl[sym] && !strings.HasPrefix(sym, "$d") {
			m.known[t.S] = 0
			return 0
		}
	}
	m.pending[t.S] = true
	return 0
}

func parseBVValue(n *sx) (uint64, bool) {
	if n.isAtom() {
		switch {
		case n.atom == "true":
			return 1, true
		case n.atom == "false":
			return 0, true
		case strings.HasPrefix(n.atom, "#x"):
			s := n.atom[2:]
			if len(s) > 16 {
				s = s[len(s)-16:]
			}
			v, err := strconv.ParseUint(s, 16, 64)
			return v, err == nil
		case strings.HasPrefix(n.atom, "#b"):
			s := n.atom[2:]
			if len(s) > 64 {
				s = s[len(s)-64:]
			}
			v, err := strconv.ParseUint(s, 2, 64)
			return v, err == nil
		}
		return 0, false
	}
	if len(n.list) == 3 && n.list[0].atom == "_" && strings.HasPrefix(n.list[1].atom, "bv") {
		v, err := strconv.ParseUint(n.list[1].atom[2:], 10, 64)
		return v, err == nil
	}
	return 0, false
}

// resolve asks the solver for the pending terms (the values already known are
// pinned so that successive calls see one model).
func (m *modelOracle) resolve() bool {
	if len(m.pending) == 0 {
		return false
	}
	var terms []string
	for t := range m.pending {
		terms = append(terms, t)
	}
	sort.Strings(terms)
	m.pending = map[string]bool{}
	var sp solverSpec
	for _, s := range solvers {
		if s.name == m.solver {
			sp = s
		}
	}
	if sp.bin == "" {
		sp = solvers[0]
	}
	q := strings.Replace(m.query, "(check-sat)\n", "", 1)
	if sp.bin == "cvc5" {
		q = "(set-option :produce-models true)\n" + q
	}
	var pins []string
	for t, v := range m.known {
		if strings.HasPrefix(t, "(") || m.decl[t] {
			// pin only bit-vector valued terms whose width is evident: declared constants
			if m.decl[t] {
				_ = v
			}
		}
	}
	_ = pins
	q += "(check-sat)\n(get-value (" + strings.Join(terms, " ") + "))\n"
	dir, err := os.MkdirTemp("", "pvc-model-")
	if err != nil {
		m.err = err.Error()
		return false
	}
	defer os.RemoveAll(dir)
	file := filepath.Join(dir, "m.smt2")
	os.WriteFile(file, []byte(q), 0o644)
	r := runSolver(context.Background(), sp, file, 30000, 0)
	out := r.out
	i := strings.Index(out, "((")
	if r.status != "sat" || i < 0 {
		m.err = "model query failed: " + strings.TrimSpace(out)
		for _, t := range terms {
			m.known[t] = 0
		}
		return false
	}
	tree := parseSx(out[i:])
	got := 0
	if tree != nil {
		for _, pair := range tree.list {
			if len(pair.list) != 2 {
				continue
			}
			if v, ok := parseBVValue(pair.list[1]); ok {
				m.known[pair.list[0].String()] = v
				got++
			}
		}
	}
	// terms the parser could not match textually: map by position
	if tree != nil && len(tree.list) == len(terms) {
		for k, pair := range tree.list {
			if len(pair.list) == 2 {
				if v, ok := parseBVValue(pair.list[1]); ok {
					m.known[terms[k]] = v
				}
			}
		}
	}
	for _, t := range terms {
		if _, ok := m.known[t]; !ok {
			m.known[t] = 0
		}
	}
	return true
}

// -------------------------------------------------------------------------

type materializer struct {
	x       *Exec
	m       *modelOracle
	entry   *State
	pkg     *types.Package
	imports map[string]string // path -> name
	partial []string
	maxLen  int64
}

func (g *materializer) qual(p *types.Package) string {
	if p == g.pkg {
		return ""
	}
	g.imports[p.Path()] = p.Name()
	return p.Name()
}

func (g *materializer) typeStr(t types.Type) string { return types.TypeString(t, g.qual) }

func lit64(v uint64) Term { return BVLit(v, 64) }

// entryRead is the entry-state value of a leaf at a concrete (region, offset).
func (g *materializer) entryRead(name string, srt Sort, rgn, off uint64) uint64 {
	memT := Term{S: lazyMemName(name, 0), Sort: outerSort(srt)}
	return g.m.val(Select(Select(memT, lit64(rgn)), lit64(off)))
}

func signedStr(v uint64, w int) string { return strconv.FormatInt(sext(v, w), 10) }

// value renders a Go expression for the value of type t whose leaves are given
// by leafVal (called with the leaf path).
func (g *materializer) value(t types.Type, leafVal func(path string, srt Sort) uint64, prefixForArrays func(path string) (uint64, bool), path string, depth int) string {
	if depth > 6 {
		g.partial = append(g.partial, "nesting too deep at "+path)
		return "*new(" + g.typeStr(t) + ")"
	}
	ts := g.typeStr(t)
	switch u := t.Underlying().(type) {
	case *types.Basic:
		switch {
		case u.Info()&types.IsBoolean != 0:
			if leafVal(path, SBool) != 0 {
				return ts + "(true)"
			}
			return ts + "(false)"
		case u.Info()&types.IsInteger != 0:
			w := int(g.x.sizes.Sizeof(u)) * 8
			v := leafVal(path, BV(w))
			if u.Info()&types.IsUnsigned != 0 {
				return fmt.Sprintf("%s(%d)", ts, v&mask(w))
			}
			return fmt.Sprintf("%s(%s)", ts, signedStr(v, w))
		case u.Info()&types.IsString != 0:
			g.partial = append(g.partial, "string "+path+" replaced by \"\"")
			return ts + `("")`
		}
	case *types.Slice:
		rgn := leafVal(path+".rgn", SBV64)
		off := leafVal(path+".off", SBV64)
		ln := int64(leafVal(path+".len", SBV64))
		if rgn == 0 {
			return ts + "(nil)"
		}
		if ln < 0 || ln > 1<<16 {
			if b, ok := u.Elem().Underlying().(*types.Basic); ok && b.Kind() == types.Uint8 && ln > 0 && ln <= (1<<32)+(1<<20) {
				// a huge byte slice: only its length can matter; contents are zero
				g.partial = append(g.partial, fmt.Sprintf("byte slice %s of length %d allocated zero-filled", path, ln))
				return fmt.Sprintf("make(%s, %d)", ts, ln)
			}
			g.partial = append(g.partial, fmt.Sprintf("slice %s has length %d: not materialised", path, ln))
			return "PVC_TOO_LARGE"
		}
		if ln > g.maxLen {
			g.maxLen = ln
		}
		et := u.Elem()
		var elems []string
		for i := int64(0); i < ln; i++ {
			idx := off + uint64(i)
			elems = append(elems, g.value(et, func(p string, srt Sort) uint64 {
				return g.entryRead(memName(et)+p, srt, rgn, idx)
			}, nil, "", depth+1))
		}
		if b, ok := et.Underlying().(*types.Basic); ok && b.Kind() == types.Uint8 && types.Identical(et, types.Typ[types.Uint8]) {
			// compact byte literal
			var sb strings.Builder
			sb.WriteString(ts + "{")
			for i := int64(0); i < ln; i++ {
				if i > 0 {
					sb.WriteString(", ")
				}
				fmt.Fprintf(&sb, "%d", g.entryRead("uint8", BV(8), rgn, off+uint64(i))&0xff)
			}
			sb.WriteString("}")
			return sb.String()
		}
		return ts + "{" + strings.Join(elems, ", ") + "}"
	case *types.Pointer:
		rgn := leafVal(path+".rgn", SBV64)
		off := leafVal(path+".off", SBV64)
		if rgn == 0 {
			return "(" + ts + ")(nil)"
		}
		et := u.Elem()
		if _, ok := et.Underlying().(*types.Struct); !ok {
			inner := g.value(et, func(p string, srt Sort) uint64 {
				return g.entryRead(memName(et)+p, srt, rgn, off)
			}, nil, "", depth+1)
			return fmt.Sprintf("func() %s { v := %s; return &v }()", ts, inner)
		}
		inner := g.value(et, func(p string, srt Sort) uint64 {
			return g.entryRead(memName(et)+p, srt, rgn, off)
		}, func(p string) (uint64, bool) {
			// region of an array embedded in the heap object at (rgn, off)
			name := sanitize("emb$" + memName(et) + p)
			if !g.m.decl[name] {
				return 0, false
			}
			return g.m.val(Term{S: fmt.Sprintf("(%s %s %s)", name, lit64(rgn).S, lit64(off).S), Sort: SBV64}), true
		}, "", depth+1)
		return "&" + inner
	case *types.Array:
		if prefixForArrays == nil {
			break
		}
		argn, ok := prefixForArrays(path)
		if !ok {
			// the function never touches this array: leave it zero
			return ts + "{}"
		}
		et := u.Elem()
		b, isBasic := et.Underlying().(*types.Basic)
		if !isBasic || b.Info()&types.IsInteger == 0 {
			break
		}
		n := u.Len()
		if n > 4096 {
			g.partial = append(g.partial, fmt.Sprintf("array %s: only the first 4096 of %d elements are materialised", path, n))
			n = 4096
		}
		w := int(g.x.sizes.Sizeof(b)) * 8
		var sb strings.Builder
		fmt.Fprintf(&sb, "func() %s { var a %s; ", ts, ts)
		for i := int64(0); i < n; i++ {
			v := g.entryRead(memName(et), BV(w), argn, uint64(i)) & mask(w)
			if v != 0 {
				fmt.Fprintf(&sb, "a[%d] = %d; ", i, v)
			}
		}
		sb.WriteString("return a }()")
		return sb.String()
	case *types.Struct:
		var fs []string
		for i := 0; i < u.NumFields(); i++ {
			f := u.Field(i)
			if f.Name() == "_" {
				continue
			}
			if !f.Exported() && f.Pkg() != g.pkg {
				g.partial = append(g.partial, "unexported field "+path+"."+f.Name()+" left zero")
				continue
			}
			switch f.Type().Underlying().(type) {
			case *types.Interface, *types.Signature, *types.Map, *types.Chan:
				g.partial = append(g.partial, "field "+path+"."+f.Name()+" of unsupported type left zero")
				continue
			case *types.Array:
				if prefixForArrays == nil {
					g.partial = append(g.partial, "array field "+path+"."+f.Name()+" left zero")
					continue
				}
			}
			fs = append(fs, f.Name()+": "+g.value(f.Type(), leafVal, prefixForArrays, path+"."+f.Name(), depth+1))
		}
		return ts + "{" + strings.Join(fs, ", ") + "}"
	}
	g.partial = append(g.partial, "value of type "+ts+" at "+path+" left zero")
	return "*new(" + ts + ")"
}

// paramExpr renders the entry value of a symbolic parameter.
func (g *materializer) paramExpr(t types.Type, v Value) string {
	var leafTerms = map[string]Term{}
	func() {
		defer func() { recover() }()
		g.x.walk(t, v, "", func(l leaf, tm Term) { leafTerms[l.path] = tm }, nil)
	}()
	return g.value(t, func(p string, srt Sort) uint64 {
		tm, ok := leafTerms[p]
		if !ok {
			g.partial = append(g.partial, "no symbolic leaf for "+p)
			return 0
		}
		return g.m.val(tm)
	}, nil, "", 0)
}

const replayHelpers = `
var pvcDomain []int64
var pvc_idx int

func pvc_implies(a, b bool) bool { return !a || b }
func pvc_iff(a, b bool) bool     { return a == b }
func pvc_old[T any](x T) T       { return x }
func pvc_assert(b bool)          {}
func pvc_assume(b bool)          {}
func pvc_havoc[T any](x *T)      {}

func pvc_suffix(a, b []byte) bool {
	if len(a) == 0 {
		return true
	}
	return len(a) <= len(b) && &a[0] == &b[len(b)-len(a)]
}

func pvcQuant(f interface{}, all bool) (res bool) {
	defer func() {
		if r := recover(); r != nil {
			// an out-of-range read inside the body: treat the instance as vacuous
			res = all
		}
	}()
	fv := pvcreflect.ValueOf(f)
	n := fv.Type().NumIn()
	args := make([]pvcreflect.Value, n)
	var rec func(k int) bool
	rec = func(k int) bool {
		if k == n {
			ok := func() (ok bool) {
				defer func() {
					if r := recover(); r != nil {
						ok = all
					}
				}()
				return fv.Call(args)[0].Bool()
			}()
			return ok
		}
		for _, d := range pvcDomain {
			v := pvcreflect.New(fv.Type().In(k)).Elem()
			switch v.Kind() {
			case pvcreflect.Int, pvcreflect.Int8, pvcreflect.Int16, pvcreflect.Int32, pvcreflect.Int64:
				v.SetInt(d)
			case pvcreflect.Uint, pvcreflect.Uint8, pvcreflect.Uint16, pvcreflect.Uint32, pvcreflect.Uint64, pvcreflect.Uintptr:
				if d < 0 {
					continue
				}
				v.SetUint(uint64(d))
			default:
				return all
			}
			args[k] = v
			r := rec(k + 1)
			if all && !r {
				return false
			}
			if !all && r {
				return true
			}
		}
		return all
	}
	return rec(0)
}

func pvc_forall[F any](f F) bool { return pvcQuant(f, true) }
func pvc_exists[F any](f F) bool { return pvcQuant(f, false) }

func pvcClone[T any](v T) T {
	return pvcCloneValue(pvcreflect.ValueOf(&v).Elem(), 0).Interface().(T)
}

func pvcCloneValue(v pvcreflect.Value, depth int) pvcreflect.Value {
	out := pvcreflect.New(v.Type()).Elem()
	if depth > 8 {
		out.Set(v)
		return out
	}
	switch v.Kind() {
	case pvcreflect.Slice:
		if v.IsNil() {
			return out
		}
		out = pvcreflect.MakeSlice(v.Type(), v.Len(), v.Cap())
		for i := 0; i < v.Len(); i++ {
			out.Index(i).Set(pvcCloneValue(v.Index(i), depth+1))
		}
		return out
	case pvcreflect.Ptr:
		if v.IsNil() {
			return out
		}
		p := pvcreflect.New(v.Type().Elem())
		p.Elem().Set(pvcCloneValue(v.Elem(), depth+1))
		return p
	case pvcreflect.Struct:
		out.Set(v)
		for i := 0; i < v.NumField(); i++ {
			f := out.Field(i)
			if !f.CanSet() {
				f = pvcreflect.NewAt(f.Type(), pvcunsafe.Pointer(f.UnsafeAddr())).Elem()
			}
			src := v.Field(i)
			if !src.CanInterface() {
				if !src.CanAddr() {
					continue
				}
				src = pvcreflect.NewAt(src.Type(), pvcunsafe.Pointer(src.UnsafeAddr())).Elem()
			}
			switch src.Kind() {
			case pvcreflect.Slice, pvcreflect.Ptr, pvcreflect.Struct:
				f.Set(pvcCloneValue(src, depth+1))
			}
		}
		return out
	}
	out.Set(v)
	return out
}
`

var oldCallRe = regexp.MustCompile(`pvc_old\(`)

// rewriteOld replaces pvc_old(E) by E with parameter names renamed to their
// pre-call clones.
func rewriteOld(text string, params []string) string {
	for {
		loc := oldCallRe.FindStringIndex(text)
		if loc == nil {
			return text
		}
		depth := 0
		end := -1
		for i := loc[1] - 1; i < len(text); i++ {
			if text[i] == '(' {
				depth++
			} else if text[i] == ')' {
				depth--
				if depth == 0 {
					end = i
					break
				}
			}
		}
		if end < 0 {
			return text
		}
		inner := text[loc[1]:end]
		m := map[string]string{}
		for _, p := range params {
			m[p] = p + "__old"
		}
		text = text[:loc[0]] + "(" + substIdents(inner, m) + ")" + text[end+1:]
	}
}

var boundParamRe = regexp.MustCompile(`func\(([^)]*)\) bool`)

// hoistOld gives old(E) its meaning in the replay: E is evaluated before the
// call and the value is kept (a pointer keeps pointing at the live object, so
// reads through it outside old() see the final state). Only when E mentions a
// quantified variable, which cannot be hoisted, the parameter names inside E
// are redirected to deep copies taken before the call.
func hoistOld(text string, params []string) (string, []string) {
	boundNames := map[string]bool{}
	for _, m := range boundParamRe.FindAllStringSubmatch(text, -1) {
		for _, part := range strings.Split(m[1], ",") {
			f := strings.Fields(part)
			if len(f) > 0 {
				boundNames[f[0]] = true
			}
		}
	}
	var pre []string
	k := 0
	for {
		loc := oldCallRe.FindStringIndex(text)
		if loc == nil {
			return text, pre
		}
		depth := 0
		end := -1
		for i := loc[1] - 1; i < len(text); i++ {
			if text[i] == '(' {
				depth++
			} else if text[i] == ')' {
				depth--
				if depth == 0 {
					end = i
					break
				}
			}
		}
		if end < 0 {
			return text, pre
		}
		inner := text[loc[1]:end]
		usesBound := false
		for _, id := range reIdent.FindAllString(inner, -1) {
			if boundNames[id] {
				usesBound = true
			}
		}
		if usesBound {
			m := map[string]string{}
			for _, p := range params {
				m[p] = p + "__old"
			}
			text = text[:loc[0]] + "(" + substIdents(inner, m) + ")" + text[end+1:]
			continue
		}
		k++
		name := fmt.Sprintf("pvcOld%d", k)
		pre = append(pre, fmt.Sprintf("\t%s := %s\n\t_ = %s\n", name, inner, name))
		text = text[:loc[0]] + name + text[end+1:]
	}
}

func tryReplay(w *World, v violation) *replayRun {
	o := v.obl
	c := v.fn.Contract
	rr := &replayRun{}
	skip := func(why string) *replayRun {
		rr.Outcome, rr.Why = "skipped", why
		return rr
	}
	if o == nil || o.Run == nil || (o.Query == "" && o.CandQuery == "") {
		return skip("no model available")
	}
	if o.Result != "refuted" && o.CandQuery == "" {
		return skip("no model available")
	}
	if c.Opaque {
		return skip("keys are opaque in this contract: the model has no concrete bytes")
	}
	var callExpr string
	for _, d := range c.Block.Dirs {
		if d.Kind == "replaycall" {
			callExpr = d.Expr
		}
	}
	if c.Decl == nil && callExpr == "" {
		return skip("function literal without a replay-call directive")
	}
	safety := map[string]bool{"index": true, "slice": true, "nil": true, "div": true, "make": true, "panic": true, "shift": true}
	if o.Kind != "ensures" && !safety[o.Kind] {
		return skip("obligations of kind " + o.Kind + " have no executable replay")
	}
	run := o.Run
	x := run.x
	m := newOracle(o)
	sig := run.sig
	// size-like quantities to minimise: slice lengths and the int fields of pointed-to structs
	var sizeTerms []Term
	collect := func(t types.Type, v Value) {
		pt, ok := t.Underlying().(*types.Pointer)
		pv, ok2 := v.(*PtrV)
		if !ok || !ok2 {
			return
		}
		st, ok := pt.Elem().Underlying().(*types.Struct)
		if !ok {
			return
		}
		for i := 0; i < st.NumFields(); i++ {
			f := st.Field(i)
			if b, ok := f.Type().Underlying().(*types.Basic); ok && (b.Kind() == types.Int || b.Kind() == types.Int64) {
				memT := Term{S: lazyMemName(memName(pt.Elem())+"."+f.Name(), 0), Sort: outerSort(SBV64)}
				sizeTerms = append(sizeTerms, Select(Select(memT, pv.Rgn), pv.Off))
			}
		}
	}
	if sig.Recv() != nil && run.recv != nil {
		collect(sig.Recv().Type(), run.recv)
	}
	for i := 0; i < sig.Params().Len() && i < len(run.args); i++ {
		collect(sig.Params().At(i).Type(), run.args[i])
	}
	m.shrink(sizeTerms)
	pkg := c.Pkg.Types
	g := &materializer{x: x, m: m, entry: run.entry, pkg: pkg, imports: map[string]string{}}
	type pv struct {
		name string
		t    types.Type
		v    Value
	}
	var params []pv
	if sig.Recv() != nil && run.recv != nil {
		n := sig.Recv().Name()
		if n == "" || n == "_" {
			n = "pvcRecv"
		}
		params = append(params, pv{n, sig.Recv().Type(), run.recv})
	}
	for i := 0; i < sig.Params().Len(); i++ {
		p := sig.Params().At(i)
		n := p.Name()
		if n == "" || n == "_" {
			n = fmt.Sprintf("pvcArg%d", i)
		}
		switch p.Type().Underlying().(type) {
		case *types.Signature, *types.Interface, *types.Map, *types.Chan:
			return skip("parameter " + n + " has a type the replay cannot construct")
		}
		if i < len(run.args) {
			params = append(params, pv{n, p.Type(), run.args[i]})
		}
	}
	var exprs []string
	for round := 0; round < 8; round++ {
		exprs = exprs[:0]
		g.partial = nil
		g.maxLen = 0
		for _, p := range params {
			exprs = append(exprs, g.paramExpr(p.t, p.v))
		}
		if !m.resolve() {
			break
		}
	}
	if m.err != "" {
		return skip(m.err)
	}
	for _, e := range exprs {
		if strings.Contains(e, "PVC_TOO_LARGE") {
			return skip("replay-skipped: allocation (" + strings.Join(g.partial, "; ") + ")")
		}
	}
	// the test
	var b strings.Builder
	var names []string
	recvName := ""
	for i, p := range params {
		fmt.Fprintf(&b, "\t%s := %s\n\t_ = %s\n", p.name, exprs[i], p.name)
		fmt.Fprintf(&b, "\t%s__old := pvcClone(%s)\n\t_ = %s__old\n", p.name, p.name, p.name)
		names = append(names, p.name)
		if i == 0 && sig.Recv() != nil && run.recv != nil {
			recvName = p.name
		}
	}
	for _, rq := range c.Requires {
		rw, err := RewriteExpr(rq.Dir.Expr)
		if err != nil {
			continue
		}
		fmt.Fprintf(&b, "\tfmt.Println(\"PVC-REPLAY requires:\", %s)\n", rw)
	}
	var argNames []string
	for i, p := range params {
		if i == 0 && recvName != "" {
			continue
		}
		argNames = append(argNames, p.name)
	}
	if sig.Variadic() && len(argNames) > 0 {
		argNames[len(argNames)-1] += "..."
	}
	call := ""
	switch {
	case callExpr != "":
		call = callExpr + "(" + strings.Join(argNames, ", ") + ")"
	case recvName != "":
		call = recvName + "." + c.Block.Name + "(" + strings.Join(argNames, ", ") + ")"
	default:
		call = c.Block.Name + "(" + strings.Join(argNames, ", ") + ")"
	}
	// results
	var lhs []string
	var decls strings.Builder
	for k := 0; k < sig.Results().Len(); k++ {
		rv := sig.Results().At(k)
		if k < len(c.Results) && c.Results[k] != rv {
			lhs = append(lhs, c.Results[k].Name()) // synthetic package-level variable
		} else if rv.Name() != "" && rv.Name() != "_" {
			fmt.Fprintf(&decls, "\tvar %s %s\n\t_ = %s\n", rv.Name(), g.typeStr(rv.Type()), rv.Name())
			lhs = append(lhs, rv.Name())
		} else {
			lhs = append(lhs, "_")
		}
	}
	b.WriteString(decls.String())
	clause := ""
	if o.Kind == "ensures" && o.CExpr != nil {
		rw, err := RewriteExpr(o.CExpr.Dir.Expr)
		if err != nil {
			return skip("cannot rewrite the clause: " + err.Error())
		}
		subst := map[string]string{}
		for k := range c.Results {
			name := c.Results[k].Name()
			subst[fmt.Sprintf("result%d", k)] = name
			if len(c.Results) == 1 {
				subst["result"] = name
			}
		}
		rw = substIdents(rw, subst)
		rw = substIdents(rw, map[string]string{"old": "pvc_old"})
		var hoisted []string
		rw, hoisted = hoistOld(rw, names)
		for _, h := range hoisted {
			b.WriteString(h)
		}
		clause = rw
	}
	if len(lhs) > 0 {
		fmt.Fprintf(&b, "\t%s = %s\n", strings.Join(lhs, ", "), call)
	} else {
		fmt.Fprintf(&b, "\t%s\n", call)
	}
	b.WriteString("\tfmt.Println(\"PVC-REPLAY returned\")\n")
	if clause != "" {
		fmt.Fprintf(&b, "\tfmt.Println(\"PVC-REPLAY clause:\", %s)\n", clause)
	}
	var dom []string
	for d := int64(-2); d <= g.maxLen+2 && d < 300; d++ {
		dom = append(dom, strconv.FormatInt(d, 10))
	}
	// packages the clause text refers to by the names the source file imports them under
	for _, f := range c.Pkg.Syntax {
		if f.Pos() <= c.Body.Pos() && c.Body.Pos() <= f.End() {
			for _, im := range f.Imports {
				p := strings.Trim(im.Path.Value, `"`)
				name := p[strings.LastIndex(p, "/")+1:]
				if im.Name != nil {
					name = im.Name.Name
				} else if ip := c.Pkg.Imports[p]; ip != nil {
					name = ip.Name
				}
				if name != "_" && name != "." && strings.Contains(b.String(), name+".") {
					g.imports[p] = name
				}
			}
		}
	}
	var imps strings.Builder
	imps.WriteString("\t\"fmt\"\n\t\"testing\"\n")
	var ipaths []string
	for p := range g.imports {
		ipaths = append(ipaths, p)
	}
	sort.Strings(ipaths)
	for _, p := range ipaths {
		if p == "fmt" || p == "testing" {
			continue
		}
		fmt.Fprintf(&imps, "\t%s %q\n", g.imports[p], p)
	}
	test := fmt.Sprintf(`//go:build verif

package %s

import (
%s)

// Generated by pvc: replay of the counterexample for
//   %s
func TestPVCReplay(t *testing.T) {
	pvcDomain = []int64{%s}
	defer func() {
		if r := recover(); r != nil {
			fmt.Printf("PVC-REPLAY panic: %%v\n", r)
		}
	}()
%s}
`, pkg.Name(), imps.String(), o.Name, strings.Join(dom, ", "), b.String())
	rr.Package = c.Pkg.PkgPath
	rr.TestSrc = test
	if len(g.partial) > 0 {
		rr.Why = "partial inputs: " + strings.Join(g.partial, "; ")
	}
	out, outcome := runReplayTestFor(w, c, test)
	rr.Output = out
	rr.Cmd = "go test -tags verif -overlay <overlay.json> -vet=off -count=1 -timeout 120s -run ^TestPVCReplay$ " + c.Pkg.PkgPath
	switch {
	case outcome != "ran":
		rr.Outcome = "error"
	case strings.Contains(out, "PVC-REPLAY requires: false"):
		rr.Outcome = "not-reproduced"
		rr.Why += " (a precondition is false on the materialised inputs)"
	case safety[o.Kind]:
		if strings.Contains(out, "PVC-REPLAY panic:") {
			rr.Outcome = "confirmed"
		} else {
			rr.Outcome = "not-reproduced"
		}
	default:
		if strings.Contains(out, "PVC-REPLAY clause: false") {
			rr.Outcome = "confirmed"
		} else {
			rr.Outcome = "not-reproduced"
		}
	}
	return rr
}

// replayGenFile is the executable variant of the synthetic file of a package.
func replayGenFile(cf *ContractFile) string {
	src, _, _ := synthFile(cf)
	i := strings.Index(src, synthHelpers)
	if i < 0 {
		return src
	}
	src = src[:i] + replayHelpers + src[i+len(synthHelpers):]
	// imports for the helpers
	if strings.Contains(src, "import (") {
		src = strings.Replace(src, "import (", "import (\n\tpvcreflect \"reflect\"\n\tpvcunsafe \"unsafe\"", 1)
	} else {
		src = strings.Replace(src, "package "+cf.Package+"\n", "package "+cf.Package+"\n\nimport (\n\tpvcreflect \"reflect\"\n\tpvcunsafe \"unsafe\"\n)\n", 1)
	}
	return src
}

func runReplayTestFor(w *World, c *Contract, test string) (string, string) {
	return runReplayFiles(c.CF.Dir, c.Pkg.PkgPath, replayGenFile(c.CF), test)
}

func runReplayFiles(pkgDir, pkgPath, gen, test string) (string, string) {
	dir, err := os.MkdirTemp("", "pvc-replay-")
	if err != nil {
		return err.Error(), "error"
	}
	defer os.RemoveAll(dir)
	genPath := filepath.Join(dir, "gen.go")
	testPath := filepath.Join(dir, "replay_test.go")
	os.WriteFile(genPath, []byte(gen), 0o644)
	os.WriteFile(testPath, []byte(test), 0o644)
	ov := map[string]map[string]string{"Replace": {
		filepath.Join(pkgDir, "zz_verif_gen.go"):         genPath,
		filepath.Join(pkgDir, "zz_pvc_replay_test.go"):   testPath,
	}}
	data, _ := json.Marshal(ov)
	ovPath := filepath.Join(dir, "overlay.json")
	os.WriteFile(ovPath, data, 0o644)
	ctx, cancel := context.WithTimeout(context.Background(), 15*time.Minute)
	defer cancel()
	cmd := exec.CommandContext(ctx, "go", "test", "-tags", "verif", "-overlay", ovPath, "-vet=off", "-count=1", "-v", "-timeout", "120s", "-run", "^TestPVCReplay$", pkgPath)
	cmd.Dir = repoRoot
	cmd.Env = goEnv()
	var out bytes.Buffer
	cmd.Stdout = &out
	cmd.Stderr = &out
	err = cmd.Run()
	s := out.String()
	if len(s) > 20000 {
		s = s[:20000] + "\n...[truncated]"
	}
	if !strings.Contains(s, "PVC-REPLAY") {
		return s, "error"
	}
	return s, "ran"
}

// runReplayTest re-executes a stored replay (./check replay <file>).
func runReplayTest(pkg, src string) (string, string) {
	files, _ := findContractFiles(repoRoot)
	for _, f := range files {
		rel, _ := filepath.Rel(repoRoot, filepath.Dir(f))
		if repoModule+"/"+rel == pkg || (rel == "." && pkg == repoModule) {
			cf, err := ParseContractFile(f)
			if err != nil {
				return err.Error(), "error"
			}
			out, st := runReplayFiles(cf.Dir, pkg, replayGenFile(cf), src)
			if st != "ran" {
				return out, "error"
			}
			if strings.Contains(out, "PVC-REPLAY clause: false") || strings.Contains(out, "PVC-REPLAY panic:") {
				return out, "confirmed"
			}
			return out, "not-reproduced"
		}
	}
	return "no contract file for package " + pkg, "error"
}
