package main

// tryReplay and runReplayTest: reproduce a refuted obligation on the real code.
// (first version: no executable replay is generated)

func tryReplay(w *World, v violation) *replayRun { return nil }

func runReplayTest(pkg, src string) (string, string) { return "", "skipped" }
