package main

// Go-coded models ("assumed contracts") of dependency functions. Every model
// used by a run is listed in that run's trusted_base.

import (
	"fmt"
	"go/ast"
	"go/types"
	"strings"
)

func (x *Exec) errNil() Term { return x.ctx.Const("err$nil", SErr) }

func (x *Exec) errRoot(e Term) Term { return x.ctx.UF("err$root", SErr, e) }

func (x *Exec) freshErr(s *State, hint string) Term {
	e := x.ctx.Fresh("err$"+hint, SErr)
	s.assume(Ne(e, x.errNil()))
	return e
}

func scalarArg(args []Value, i int) Term {
	if i >= len(args) {
		unsup("missing argument %d", i)
	}
	sc, ok := args[i].(*Scalar)
	if !ok {
		unsup("argument %d is not scalar", i)
	}
	return sc.T
}

func (x *Exec) special(s *State, fr *Frame, fn *types.Func, name string, recv Value, args []Value, call *ast.CallExpr, sig *types.Signature) (Value, bool) {
	// the three error packages in use share one model
	if fn.Pkg() != nil && recv == nil {
		switch fn.Pkg().Path() {
		case "github.com/pkg/errors", "github.com/cockroachdb/errors", "errors":
			name = "github.com/cockroachdb/errors." + fn.Name()
			if fn.Name() == "Is" || fn.Name() == "Join" {
				name = "errors." + fn.Name()
			}
		}
	}
	switch {
	case name == "errors.New" || name == "fmt.Errorf" ||
		name == "github.com/cockroachdb/errors.New" || name == "github.com/cockroachdb/errors.Newf" ||
		name == "github.com/cockroachdb/errors.Errorf" || name == "github.com/cockroachdb/errors.AssertionFailedf" ||
		name == "github.com/cockroachdb/errors.NewAssertionErrorWithWrappedErrf":
		x.note("trusted", name+": returns a fresh non-nil error")
		return &Scalar{T: x.freshErr(s, "new")}, true
	case name == "github.com/cockroachdb/errors.Wrap" || name == "github.com/cockroachdb/errors.Wrapf" ||
		name == "github.com/cockroachdb/errors.WithStack" || name == "github.com/cockroachdb/errors.WithSafeDetails" ||
		name == "github.com/cockroachdb/errors.WithDetailf" || name == "github.com/cockroachdb/errors.WithHintf" ||
		name == "github.com/cockroachdb/errors.Mark" || name == "github.com/cockroachdb/errors.WithMessage" ||
		name == "github.com/cockroachdb/errors.WithMessagef" || name == "github.com/cockroachdb/errors.WithSecondaryError" ||
		name == "github.com/cockroachdb/errors.WithDetail" || name == "github.com/cockroachdb/errors.WithHint":
		x.note("trusted", name+": nil for a nil error, otherwise a non-nil error with the same root")
		e := scalarArg(args, 0)
		w := x.ctx.Fresh("err$wrap", SErr)
		isNil := Eq(e, x.errNil())
		s.assume(Implies(isNil, Eq(w, x.errNil())))
		s.assume(Implies(Not(isNil), And(Ne(w, x.errNil()), Eq(x.errRoot(w), x.errRoot(e)))))
		return &Scalar{T: w}, true
	case name == "errors.Is" || name == "github.com/cockroachdb/errors.Is":
		x.note("trusted", name+": compares error roots")
		e, t := scalarArg(args, 0), scalarArg(args, 1)
		return &Scalar{T: And(Ne(e, x.errNil()), Or(Eq(e, t), Eq(x.errRoot(e), x.errRoot(t))))}, true
	case name == "github.com/cockroachdb/errors.CombineErrors" || name == "errors.Join":
		x.note("trusted", name+": nil iff all arguments are nil")
		w := x.ctx.Fresh("err$comb", SErr)
		var allNil []Term
		for i := range args {
			if sc, ok := args[i].(*Scalar); ok && sc.T.Sort == SErr {
				allNil = append(allNil, Eq(sc.T, x.errNil()))
			}
		}
		s.assume(Eq(Eq(w, x.errNil()), And(allNil...)))
		return &Scalar{T: w}, true
	case strings.HasPrefix(name, "github.com/cockroachdb/errors.Safe") || name == "github.com/cockroachdb/redact.Safe":
		return &Scalar{T: x.ctx.Fresh("safe", SIface)}, true
	case strings.HasPrefix(name, "(*sync.Mutex).") || strings.HasPrefix(name, "(*sync.RWMutex).") ||
		strings.HasPrefix(name, "(*sync.WaitGroup).") || strings.HasPrefix(name, "(*sync.Cond)."):
		x.note("trusted", "sync primitives have no effect on tracked state; lock discipline is assumed")
		if sig.Results().Len() == 0 {
			return &TupleV{}, true
		}
		return x.resultOf(s, sig, "sync"), true
	case name == "io.ReadFull":
		x.note("trusted", "io.ReadFull: 0 <= n <= len(buf); err == nil <==> n == len(buf); n == 0 on io.EOF; only buf[:] is written; err is nil, io.EOF, io.ErrUnexpectedEOF or another error")
		buf, ok := args[1].(*SliceV)
		if !ok {
			unsup("io.ReadFull into opaque buffer")
		}
		x.havocRange(s, types.Typ[types.Uint8], buf.Rgn, buf.Off, buf.Len)
		n := x.ctx.Fresh("readfull$n", SBV64)
		e := x.ctx.Fresh("readfull$err", SErr)
		s.assume(Sle(I64(0), n))
		s.assume(Sle(n, buf.Len))
		s.assume(Eq(Eq(e, x.errNil()), Eq(n, buf.Len)))
		eof := x.readGlobalErr(s, "io", "EOF")
		ueof := x.readGlobalErr(s, "io", "ErrUnexpectedEOF")
		s.assume(Implies(Eq(e, eof), Eq(n, I64(0))))
		s.assume(Implies(And(Ne(e, x.errNil()), Eq(n, I64(0)), Sle(I64(1), buf.Len)), Ne(e, ueof)))
		s.assume(Implies(Eq(e, ueof), And(Slt(I64(0), n), Slt(n, buf.Len))))
		// errors produced by the underlying reader are not this module's own sentinel errors
		x.note("assumed", "errors returned by the underlying io.Reader are not pebble's own sentinel errors")
		ext := func(t Term) Term { return x.ctx.UF("err$external", SBool, t) }
		s.assume(Or(Eq(e, x.errNil()), Eq(e, eof), Eq(e, ueof), And(ext(e), ext(x.errRoot(e)))))
		return &TupleV{V: []Value{&Scalar{T: n}, &Scalar{T: e}}}, true
	case name == "github.com/cockroachdb/pebble/internal/crc.New":
		x.note("trusted", "crc.New(b).Value(): an uninterpreted function of the bytes b[0:len(b)]")
		b, ok := args[0].(*SliceV)
		if !ok {
			unsup("crc of opaque bytes")
		}
		return &Scalar{T: x.seqFunc("crc", BV(32), x.ctx.Share(x.inner(s, "uint8", BV(8), b.Rgn)), b.Off, b.Len)}, true
	case name == "github.com/cespare/xxhash/v2.Sum64" && !x.opaque:
		b, ok := args[0].(*SliceV)
		if !ok {
			unsup("xxhash of opaque bytes")
		}
		return &Scalar{T: x.seqFunc("xxh64", BV(64), x.ctx.Share(x.inner(s, "uint8", BV(8), b.Rgn)), b.Off, b.Len)}, true
	case name == "(github.com/cockroachdb/pebble/internal/crc.CRC).Value":
		// Value() is a fixed bijective mix of the state; modelled as the identity on the
		// abstract checksum (both sides of every comparison apply it)
		return &Scalar{T: recv.(*Scalar).T}, true
	case name == "(github.com/cockroachdb/pebble/internal/crc.CRC).Update":
		b, ok := args[0].(*SliceV)
		if !ok {
			unsup("crc of opaque bytes")
		}
		return &Scalar{T: x.ctx.UF("crc$update", BV(32), recv.(*Scalar).T, x.ctx.Share(x.inner(s, "uint8", BV(8), b.Rgn)), b.Off, b.Len)}, true
	case name == "encoding/binary.PutUvarint" && !x.opaque:
		// Exact model (from the format: 7 bits per byte, least significant group first,
		// high bit set on all but the last byte): n bytes are written, n in 1..10.
		buf, ok := args[0].(*SliceV)
		if !ok {
			unsup("PutUvarint on a non-slice")
		}
		v := scalarArg(args, 1)
		x.note("trusted", "encoding/binary.PutUvarint(buf, v): writes the 1..10 byte little-endian base-128 encoding of v into buf[0:n] and returns n; panics if buf is shorter")
		n := I64(10)
		for k := 9; k >= 1; k-- {
			n = Ite(Ult(v, BVLit(1<<(7*uint(k)), 64)), I64(int64(k)), n)
		}
		n = x.ctx.Share(n)
		fits := Sle(n, buf.Len)
		if x.spec == 0 {
			if x.top.NoPanic {
				x.oblige(s, "index", "index@"+shortText(exprText(x.w.Fset, call)), fits, call.Pos(), "PutUvarint needs room for the encoding: "+exprText(x.w.Fset, call))
			}
			s.assume(fits)
		}
		x.noteWriteRange(s, "uint8", buf.Rgn, buf.Off, n)
		for i := 0; i < 10; i++ {
			grp := BVBin("bvand", BVBin("bvlshr", v, BVLit(uint64(7*i), 64)), BVLit(0x7f, 64))
			b := Resize(grp, 8, false)
			last := Eq(n, I64(int64(i+1)))
			b = Ite(last, b, BVBin("bvor", b, BVLit(0x80, 8)))
			off := x.ctx.Share(Add64(buf.Off, I64(int64(i))))
			old := x.rd(s, "uint8", BV(8), buf.Rgn, off)
			// (the frame obligation for buf[0:n] was generated above; positions >= n keep
			// their value, so the store is not a write there)
			arr := x.inner(s, "uint8", BV(8), buf.Rgn)
			x.setInner(s, "uint8", BV(8), buf.Rgn, x.ctx.Share(Store(arr, off, x.ctx.Share(Ite(Slt(I64(int64(i)), n), b, old)))))
		}
		return &Scalar{T: n}, true
	case (name == "bytes.HasPrefix" || name == "bytes.CutPrefix") && !x.opaque:
		a, ok1 := args[0].(*SliceV)
		p, ok2 := args[1].(*SliceV)
		if !ok1 || !ok2 {
			unsup("%s on non-slices", name)
		}
		x.note("trusted", "bytes.HasPrefix/CutPrefix: s starts with prefix; CutPrefix returns s[len(prefix):] then, s otherwise")
		head := &SliceV{Rgn: a.Rgn, Off: a.Off, Len: p.Len, Cap: p.Len}
		has := x.ctx.Share(And(Sle(p.Len, a.Len), x.bytesEqual(s, head, p)))
		if name == "bytes.HasPrefix" {
			return &Scalar{T: has}, true
		}
		// a quantified condition must not end up in an ite: name it
		q := x.ctx.Fresh("hasprefix", SBool)
		s.facts = append(s.facts, Eq(q, has))
		rest := &SliceV{Rgn: a.Rgn, Off: x.ctx.Share(Add64(a.Off, p.Len)), Len: x.ctx.Share(Sub64(a.Len, p.Len)), Cap: x.ctx.Share(Sub64(a.Cap, p.Len))}
		return &TupleV{V: []Value{x.mergeValue(q, rest, a), &Scalar{T: q}}}, true
	case name == "strings.HasPrefix" || name == "strings.HasSuffix" || name == "strings.Contains":
		// strings are opaque values: these predicates are unspecified but deterministic
		a, b := scalarArg(args, 0), scalarArg(args, 1)
		x.note("trusted", name+": a deterministic predicate of its two arguments (nothing else is assumed about it)")
		r := x.ctx.UF("str$"+strings.ToLower(strings.TrimPrefix(name, "strings.")), SBool, a, b)
		// the only fact used: a string that contains another one is at least as long
		s.assume(Implies(r, Sle(x.strlen(b), x.strlen(a))))
		return &Scalar{T: r}, true
	case name == "bytes.Equal":
		if x.opaque {
			a, b := scalarArg(args, 0), scalarArg(args, 1)
			return &Scalar{T: x.ctx.UF("bytes$equal", SBool, a, b)}, true
		}
		a, ok1 := args[0].(*SliceV)
		b, ok2 := args[1].(*SliceV)
		if !ok1 || !ok2 {
			unsup("bytes.Equal on non-slices")
		}
		x.note("trusted", "bytes.Equal: same length and same bytes")
		return &Scalar{T: x.bytesEqual(s, a, b)}, true
	case name == "bytes.Compare":
		if x.opaque {
			a, b := scalarArg(args, 0), scalarArg(args, 1)
			return &Scalar{T: x.ctx.UF("bytes$compare", SBV64, a, b)}, true
		}
		a, ok1 := args[0].(*SliceV)
		b, ok2 := args[1].(*SliceV)
		if !ok1 || !ok2 {
			unsup("bytes.Compare on non-slices")
		}
		x.note("trusted", "bytes.Compare: sign of the lexicographic comparison, result in {-1,0,1}")
		return &Scalar{T: x.bytesCompare(s, a, b)}, true
	case name == "github.com/cockroachdb/crlib/crbytes.CommonPrefix":
		x.note("trusted", "crbytes.CommonPrefix(a, b): length of the longest common prefix")
		a, ok1 := args[0].(*SliceV)
		b, ok2 := args[1].(*SliceV)
		if !ok1 || !ok2 {
			unsup("CommonPrefix on opaque slices")
		}
		ma := x.ctx.Share(x.inner(s, "uint8", BV(8), a.Rgn))
		mb := x.ctx.Share(x.inner(s, "uint8", BV(8), b.Rgn))
		// a function of the two byte sequences; its defining facts travel with the symbol
		key := "commonprefix|" + ma.S + "|" + a.Off.S + "|" + a.Len.S + "|" + mb.S + "|" + b.Off.S + "|" + b.Len.S
		r, ok := x.defined[key]
		if !ok {
			r = x.ctx.Fresh("commonprefix", SBV64)
			i := x.boundName("i")
			at := func(m, p Term, idx string) string { return fmt.Sprintf("(select %s (bvadd %s %s))", m.S, p.S, idx) }
			facts := And(
				Implies(And(Sle(I64(0), a.Len), Sle(I64(0), b.Len)), And(Sle(I64(0), r), Sle(r, a.Len), Sle(r, b.Len))),
				Term{S: fmt.Sprintf("(forall ((%s (_ BitVec 64))) (=> (and (bvsle (_ bv0 64) %s) (bvslt %s %s)) (= %s %s)))", i, i, i, r.S, at(ma, a.Off, i), at(mb, b.Off, i)), Sort: SBool},
				Implies(And(Slt(r, a.Len), Slt(r, b.Len)), Ne(Term{S: at(ma, a.Off, r.S), Sort: BV(8)}, Term{S: at(mb, b.Off, r.S), Sort: BV(8)})),
			)
			x.ctx.AddAxiom("pre:def:"+r.S, []string{r.S}, facts.S)
			x.defined[key] = r
		}
		return &Scalar{T: r}, true
	case name == "sort.Search":
		// Assumed contract (holds for every predicate, monotone or not, by the binary-search
		// invariant f(i-1) == false && f(j) == true): 0 <= r <= n, r == n || f(r),
		// r == 0 || !f(r-1); f is only called with arguments in [0, n).
		x.note("trusted", "sort.Search(n, f): 0 <= r <= n, (r == n || f(r)), (r == 0 || !f(r-1)); f called only on [0,n)")
		n := scalarArg(args, 0)
		fsig, _ := fr.info.TypeOf(call.Args[1]).Underlying().(*types.Signature)
		if fsig == nil {
			return nil, false
		}
		// obligations inside f for an arbitrary argument in range
		{
			t := s.fork()
			k := x.ctx.Fresh("search$k", SBV64)
			t.assume(Sle(I64(0), k))
			t.assume(Slt(k, n))
			x.callValue(t, fr, args[1], fsig, []Value{&Scalar{T: k}}, call, "f")
		}
		r := x.ctx.Fresh("search$r", SBV64)
		s.assume(Sle(I64(0), r))
		s.assume(Sle(r, n))
		evalAt := func(arg Term, guard Term) Term {
			t := s.fork()
			t.assume(guard)
			x.noObl++
			defer func() { x.noObl-- }()
			v := x.callValue(t, fr, args[1], fsig, []Value{&Scalar{T: arg}}, call, "f")
			return v.(*Scalar).T
		}
		inRange := Slt(r, n)
		s.assume(Implies(inRange, evalAt(r, inRange)))
		pos := Slt(I64(0), r)
		s.assume(Implies(pos, Not(evalAt(Sub64(r, I64(1)), pos))))
		return &Scalar{T: r}, true
	case name == "cmp.Compare":
		a, b := scalarArg(args, 0), scalarArg(args, 1)
		if !a.Sort.IsBV() {
			return nil, false
		}
		signed := isSigned(fr.info.TypeOf(call.Args[0]))
		lt := cmpTermOp("lt", a, b, signed)
		gt := cmpTermOp("gt", a, b, signed)
		return &Scalar{T: x.ctx.Share(Ite(lt, I64(-1), Ite(gt, I64(1), I64(0))))}, true
	case name == "math/bits.TrailingZeros32" || name == "math/bits.TrailingZeros64" || name == "math/bits.LeadingZeros64" ||
		name == "math/bits.LeadingZeros32" || name == "math/bits.Len64" || name == "math/bits.Len32" || name == "math/bits.Len" ||
		name == "math/bits.OnesCount64" || name == "math/bits.OnesCount32":
		return x.bitsOp(s, name, scalarArg(args, 0)), true
	case name == "math/bits.Mul64":
		a, b := scalarArg(args, 0), scalarArg(args, 1)
		wa, wb := Resize(a, 128, false), Resize(b, 128, false)
		p := x.ctx.Share(BVBin("bvmul", wa, wb))
		hi := Term{S: fmt.Sprintf("((_ extract 127 64) %s)", p.S), Sort: SBV64}
		lo := Term{S: fmt.Sprintf("((_ extract 63 0) %s)", p.S), Sort: SBV64}
		return &TupleV{V: []Value{&Scalar{T: x.ctx.Share(hi)}, &Scalar{T: x.ctx.Share(lo)}}}, true
	case name == "math/bits.RotateLeft32" || name == "math/bits.RotateLeft64":
		a, k := scalarArg(args, 0), scalarArg(args, 1)
		w := a.Sort.Width()
		kk := BVBin("bvand", Resize(k, w, true), BVLit(uint64(w-1), w))
		l := BVBin("bvshl", a, kk)
		r := BVBin("bvlshr", a, BVBin("bvand", BVNeg(kk), BVLit(uint64(w-1), w)))
		return &Scalar{T: x.ctx.Share(BVBin("bvor", l, r))}, true
	case strings.HasPrefix(name, "github.com/cockroachdb/pebble/internal/invariants."):
		switch fn.Name() {
		case "CheckBounds", "SafeSub":
			return nil, false // real code: inline
		}
		if sig.Results().Len() == 0 {
			x.note("abstracted", name+" skipped (no effect on tracked state)")
			return &TupleV{}, true
		}
		return nil, false
	}
	if op := x.atomicOp(fn); op != "" && recv != nil {
		return x.atomic(s, fr, fn, op, recv, args, sig)
	}
	if strings.HasPrefix(name, "fmt.") || strings.HasPrefix(name, "log.") || strings.HasPrefix(name, "(*log.") {
		if sig.Results().Len() == 0 {
			return &TupleV{}, true
		}
		return x.resultOf(s, sig, "fmt"), true
	}
	// logging / events through interfaces are handled by havocCall with pureExternal
	return nil, false
}

type seqApp struct {
	fn            string
	arr, off, len Term
	res           Term
}

// seqFunc applies an uninterpreted function of a byte sequence arr[off:off+len]
// (checksums, hashes). The result is a named constant; besides its definition,
// congruence facts relate it to every earlier application of the same function:
// equal length and equal bytes give equal results, whatever memory version the
// bytes are read from.
func (x *Exec) seqFunc(fn string, ret Sort, arr, off, ln Term) Term {
	key := fn + "|" + arr.S + "|" + off.S + "|" + ln.S
	for _, a := range x.seqApps {
		if a.fn+"|"+a.arr.S+"|"+a.off.S+"|"+a.len.S == key {
			return a.res
		}
	}
	r := x.ctx.Fresh(fn, ret)
	x.ctx.AddAxiom("def:"+r.S, []string{r.S}, Eq(r, x.ctx.UF(fn+"$seq", ret, arr, off, ln)).S)
	for _, a := range x.seqApps {
		if a.fn != fn {
			continue
		}
		k := x.boundName("k")
		same := fmt.Sprintf("(forall ((%s (_ BitVec 64))) (=> (bvult %s %s) (= (select %s (bvadd %s %s)) (select %s (bvadd %s %s)))))",
			k, k, ln.S, arr.S, off.S, k, a.arr.S, a.off.S, k)
		body := fmt.Sprintf("(=> (and (= %s %s) %s) (= %s %s))", ln.S, a.len.S, same, r.S, a.res.S)
		x.ctx.AddAxiom("pre:cong:"+r.S+":"+a.res.S, []string{r.S, a.res.S}, body)
	}
	x.seqApps = append(x.seqApps, seqApp{fn, arr, off, ln, r})
	x.note("trusted", fn+": an uninterpreted function of the byte sequence (equal bytes give equal results)")
	return r
}

func cmpTermOp(o string, a, b Term, signed bool) Term {
	if signed {
		return BVCmp("bvs"+o, a, b)
	}
	return BVCmp("bvu"+o, a, b)
}

func (x *Exec) readGlobalErr(s *State, pkg, name string) Term {
	t := x.ctx.Const("err$"+pkg+"."+name, SErr)
	x.sentinel(t)
	return t
}

// bytesEqual: len equal and all bytes equal (quantified).
func (x *Exec) bytesEqual(s *State, a, b *SliceV) Term {
	ma := x.ctx.Share(x.inner(s, "uint8", BV(8), a.Rgn))
	mb := x.ctx.Share(x.inner(s, "uint8", BV(8), b.Rgn))
	x.ctx.n++
	i := fmt.Sprintf("i?%d", x.ctx.n)
	all := fmt.Sprintf("(forall ((%s (_ BitVec 64))) (=> (and (bvsle (_ bv0 64) %s) (bvslt %s %s)) (= (select %s (bvadd %s %s)) (select %s (bvadd %s %s)))))",
		i, i, i, a.Len.S, ma.S, a.Off.S, i, mb.S, b.Off.S, i)
	return And(Eq(a.Len, b.Len), Term{S: all, Sort: SBool})
}

// bytesCompare introduces the result r with its defining lexicographic facts.
func (x *Exec) bytesCompare(s *State, a, b *SliceV) Term {
	ma := x.ctx.Share(x.inner(s, "uint8", BV(8), a.Rgn))
	mb := x.ctx.Share(x.inner(s, "uint8", BV(8), b.Rgn))
	key := "bytescmp|" + ma.S + "|" + a.Off.S + "|" + a.Len.S + "|" + mb.S + "|" + b.Off.S + "|" + b.Len.S
	if r, ok := x.defined[key]; ok {
		return r
	}
	r := x.ctx.Fresh("bytescmp", SBV64)
	k := x.ctx.Fresh("bytescmp$k", SBV64) // length of the common prefix
	at := func(m, p Term, i string) string { return fmt.Sprintf("(select %s (bvadd %s %s))", m.S, p.S, i) }
	i := x.boundName("i")
	ak := Term{S: at(ma, a.Off, k.S), Sort: BV(8)}
	bk := Term{S: at(mb, b.Off, k.S), Sort: BV(8)}
	endA, endB := Eq(k, a.Len), Eq(k, b.Len)
	lt := Or(And(endA, Not(endB)), And(Not(endA), Not(endB), Ult(ak, bk)))
	eq := And(endA, endB)
	// the defining facts travel with the result symbol (they hold in every state, also when
	// the comparison occurs inside a contract expression)
	facts := And(
		Implies(And(Sle(I64(0), a.Len), Sle(I64(0), b.Len)), And(Sle(I64(0), k), Sle(k, a.Len), Sle(k, b.Len))),
		Term{S: fmt.Sprintf("(forall ((%s (_ BitVec 64))) (=> (and (bvsle (_ bv0 64) %s) (bvslt %s %s)) (= %s %s)))", i, i, i, k.S, at(ma, a.Off, i), at(mb, b.Off, i)), Sort: SBool},
		Implies(And(Not(endA), Not(endB)), Ne(ak, bk)),
		Eq(r, Ite(eq, I64(0), Ite(lt, I64(-1), I64(1)))),
	)
	x.ctx.AddAxiom("pre:def:"+r.S, []string{r.S}, facts.S)
	x.defined[key] = r
	return r
}

func (x *Exec) bitsOp(s *State, name string, a Term) Value {
	w := a.Sort.Width()
	short := name[strings.LastIndex(name, ".")+1:]
	r := x.ctx.Fresh("bits$"+short, SBV64)
	switch {
	case strings.HasPrefix(short, "TrailingZeros"):
		// r = w if a == 0, else a has bit r set and no lower bit
		s.assume(Implies(Eq(a, BVLit(0, w)), Eq(r, I64(int64(w)))))
		rw := Resize(r, w, false)
		one := BVLit(1, w)
		s.assume(Implies(Ne(a, BVLit(0, w)), And(Ult(r, I64(int64(w))),
			Ne(BVBin("bvand", a, BVBin("bvshl", one, rw)), BVLit(0, w)),
			Eq(BVBin("bvand", a, BVBin("bvsub", BVBin("bvshl", one, rw), one)), BVLit(0, w)))))
	case strings.HasPrefix(short, "Len"), strings.HasPrefix(short, "LeadingZeros"):
		// len: a < 2^len and (a == 0 -> len == 0) and (a != 0 -> a >= 2^(len-1))
		ln := r
		if strings.HasPrefix(short, "LeadingZeros") {
			ln = x.ctx.Fresh("bits$len", SBV64)
			s.assume(Eq(r, Sub64(I64(int64(w)), ln)))
		}
		s.assume(Ule(ln, I64(int64(w))))
		lw := Resize(ln, w, false)
		one := BVLit(1, w)
		s.assume(Implies(Eq(a, BVLit(0, w)), Eq(ln, I64(0))))
		s.assume(Implies(Ne(a, BVLit(0, w)), And(Ult(I64(0), ln),
			Eq(BVBin("bvlshr", a, BVBin("bvsub", lw, one)), one))))
	default:
		s.assume(Ule(r, I64(int64(w))))
	}
	return &Scalar{T: r}
}

// atomic operations on sync/atomic typed values: sequentially consistent
// single-location semantics on the value field.
func (x *Exec) atomic(s *State, fr *Frame, fn *types.Func, op string, recv Value, args []Value, sig *types.Signature) (Value, bool) {
	rs := fn.Type().(*types.Signature).Recv().Type()
	pt, ok := rs.Underlying().(*types.Pointer)
	if !ok {
		return nil, false
	}
	st, ok := pt.Elem().Underlying().(*types.Struct)
	if !ok {
		return nil, false
	}
	// find the value field
	var fieldName string
	var ft types.Type
	for i := 0; i < st.NumFields(); i++ {
		f := st.Field(i)
		if f.Name() == "v" || f.Name() == "value" {
			fieldName, ft = f.Name(), f.Type()
		}
	}
	if fieldName == "" {
		return nil, false
	}
	pv := recv.(*PtrV)
	prefix := memName(pt.Elem())
	if pv.Prov != "" {
		prefix = pv.Prov
	}
	if strings.HasSuffix(memName(pt.Elem()), "AtomicSeqNum") {
		// wrapper around atomic.Uint64: inline its real methods
		return nil, false
	}
	x.note("trusted", "sync/atomic operations: sequentially consistent single-location semantics; other goroutines are not modelled")
	srt, ok := x.scalarSort(ft)
	if !ok {
		return nil, false
	}
	name := prefix + "." + fieldName
	cur := x.rd(s, name, srt, pv.Rgn, pv.Off)
	conv := func(t Term) Term {
		if t.Sort == srt {
			return t
		}
		if srt.IsBV() && t.Sort.IsBV() {
			return Resize(t, srt.Width(), false)
		}
		if srt == BV(32) && t.Sort == SBool {
			return Ite(t, BVLit(1, 32), BVLit(0, 32))
		}
		unsup("atomic value sort mismatch")
		return t
	}
	write := func(v Term) {
		x.wr(s, name, srt, pv.Rgn, pv.Off, conv(v))
	}
	out := func(t Term) Value {
		rt := sig.Results().At(0).Type()
		rsrt, _ := x.scalarSort(rt)
		if rsrt == SBool && t.Sort != SBool {
			return &Scalar{T: Ne(t, BVLit(0, t.Sort.Width()))}
		}
		return &Scalar{T: x.ctx.Share(t)}
	}
	switch op {
	case "Load":
		return out(cur), true
	case "Store":
		write(scalarArg(args, 0))
		return &TupleV{}, true
	case "Add":
		n := BVBin("bvadd", cur, conv(scalarArg(args, 0)))
		write(n)
		return out(n), true
	case "Swap":
		write(scalarArg(args, 0))
		return out(cur), true
	case "CompareAndSwap":
		o, n := conv(scalarArg(args, 0)), conv(scalarArg(args, 1))
		ok := x.ctx.Share(Eq(cur, o))
		write(Ite(ok, n, cur))
		return &Scalar{T: ok}, true
	}
	return nil, false
}
