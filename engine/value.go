package main

import (
	"fmt"
	"go/types"
	"strings"
)

// Value is a symbolic Go value.
type Value interface{}

// Scalar: bool, integers, pointers (BV64 address), error, string, opaque bytes,
// interface, symbolic function id, map/chan references.
type Scalar struct {
	T    Term
	Prov string // for pointers obtained through unsafe: the memory the address indexes
}

// SliceV is a slice header; the contents live in the element memories.
type SliceV struct {
	Ptr, Len, Cap Term
}

// StructV is a struct value (fields in declaration order).
type StructV struct {
	F []Value
}

// ArrayRef is an array; its N elements live in the element memories at Base..Base+N-1.
type ArrayRef struct {
	Base Term
	N    int64
}

type TupleV struct {
	V []Value
}

// FuncV is a function value.
type FuncV struct {
	Fn   *types.Func // declared function or method
	Recv Value       // bound receiver for method values
	Lit  *litInfo    // function literal
	Sym  Term        // symbolic function id (parameter / field)
	Name string      // display name for callbacks
	Typ  types.Type
}

type leaf struct {
	path string
	sort Sort
	typ  types.Type
}

type unsupported struct{ msg string }

func unsup(format string, args ...interface{}) {
	panic(unsupported{fmt.Sprintf(format, args...)})
}

func isErrorType(t types.Type) bool {
	return types.Identical(t, types.Universe.Lookup("error").Type())
}

func qual(p *types.Package) string {
	if p == nil {
		return ""
	}
	return p.Path()
}

func memName(t types.Type) string {
	t = types.Unalias(t)
	if b, ok := t.(*types.Basic); ok {
		switch b.Kind() {
		case types.Uint8:
			return "uint8"
		case types.Int32:
			return "int32"
		}
		return b.Name()
	}
	s := types.TypeString(t, qual)
	s = strings.ReplaceAll(s, repoModule+"/", "")
	return s
}

func isByteSlice(t types.Type) bool {
	if s, ok := t.Underlying().(*types.Slice); ok {
		if b, ok := s.Elem().Underlying().(*types.Basic); ok && b.Kind() == types.Uint8 {
			return true
		}
	}
	return false
}

func (x *Exec) scalarSort(t types.Type) (Sort, bool) {
	switch u := t.Underlying().(type) {
	case *types.Basic:
		switch {
		case u.Info()&types.IsBoolean != 0:
			return SBool, true
		case u.Info()&types.IsInteger != 0:
			return BV(int(x.sizes.Sizeof(u)) * 8), true
		case u.Info()&types.IsString != 0:
			return SStr, true
		case u.Kind() == types.UnsafePointer:
			return SBV64, true
		case u.Kind() == types.UntypedNil:
			return SBV64, true
		case u.Info()&types.IsFloat != 0:
			return Sort("Float"), true
		}
	case *types.Pointer, *types.Map, *types.Chan:
		return SBV64, true
	case *types.Interface:
		if isErrorType(t) {
			return SErr, true
		}
		return SIface, true
	case *types.Signature:
		return SFn, true
	case *types.Slice:
		if x.opaque && isByteSlice(t) {
			return SBytes, true
		}
	case *types.TypeParam:
		return SIface, true
	}
	return "", false
}

// flatten lists the leaves of a type. Arrays have no leaves: they are references
// into the element memories (see ArrayRef).
func (x *Exec) flatten(t types.Type, prefix string, out *[]leaf) {
	if s, ok := x.scalarSort(t); ok {
		if s == "Float" {
			x.ctx.sorts["Float"] = true
		}
		*out = append(*out, leaf{prefix, s, t})
		return
	}
	switch u := t.Underlying().(type) {
	case *types.Slice:
		*out = append(*out, leaf{prefix + ".ptr", SBV64, nil}, leaf{prefix + ".len", SBV64, nil}, leaf{prefix + ".cap", SBV64, nil})
	case *types.Struct:
		for i := 0; i < u.NumFields(); i++ {
			x.flatten(u.Field(i).Type(), prefix+"."+u.Field(i).Name(), out)
		}
	case *types.Array:
		// no leaves
	case *types.Tuple:
		for i := 0; i < u.Len(); i++ {
			x.flatten(u.At(i).Type(), fmt.Sprintf("%s.%d", prefix, i), out)
		}
	default:
		unsup("flatten: unsupported type %s", t)
	}
}

func (x *Exec) leaves(t types.Type) []leaf {
	key := t.String()
	if x.opaque {
		key = "opaque:" + key
	}
	if l, ok := x.leafCache[key]; ok {
		return l
	}
	var out []leaf
	x.flatten(t, "", &out)
	x.leafCache[key] = out
	return out
}

// build constructs a value of type t; leafFn supplies the leaf terms in order and
// arrFn supplies array references for array-typed components (path given).
func (x *Exec) build(t types.Type, prefix string, leafFn func(l leaf) Term, arrFn func(path string, at *types.Array) Value) Value {
	if s, ok := x.scalarSort(t); ok {
		return &Scalar{T: leafFn(leaf{prefix, s, t})}
	}
	switch u := t.Underlying().(type) {
	case *types.Slice:
		return &SliceV{
			Ptr: leafFn(leaf{prefix + ".ptr", SBV64, nil}),
			Len: leafFn(leaf{prefix + ".len", SBV64, nil}),
			Cap: leafFn(leaf{prefix + ".cap", SBV64, nil}),
		}
	case *types.Struct:
		sv := &StructV{F: make([]Value, u.NumFields())}
		for i := 0; i < u.NumFields(); i++ {
			sv.F[i] = x.build(u.Field(i).Type(), prefix+"."+u.Field(i).Name(), leafFn, arrFn)
		}
		return sv
	case *types.Array:
		return arrFn(prefix, u)
	case *types.Tuple:
		tv := &TupleV{V: make([]Value, u.Len())}
		for i := 0; i < u.Len(); i++ {
			tv.V[i] = x.build(u.At(i).Type(), fmt.Sprintf("%s.%d", prefix, i), leafFn, arrFn)
		}
		return tv
	}
	unsup("build: unsupported type %s", t)
	return nil
}

// walk visits the leaf terms of a value in flatten order.
func (x *Exec) walk(t types.Type, v Value, prefix string, f func(l leaf, t Term), arr func(path string, at *types.Array, a *ArrayRef)) {
	if s, ok := x.scalarSort(t); ok {
		sc, ok := v.(*Scalar)
		if !ok {
			if fv, isF := v.(*FuncV); isF && s == SFn {
				f(leaf{prefix, s, t}, x.fnID(fv))
				return
			}
			unsup("walk: expected scalar for %s, have %T", t, v)
		}
		f(leaf{prefix, s, t}, sc.T)
		return
	}
	switch u := t.Underlying().(type) {
	case *types.Slice:
		sl, ok := v.(*SliceV)
		if !ok {
			unsup("walk: expected slice for %s, have %T", t, v)
		}
		f(leaf{prefix + ".ptr", SBV64, nil}, sl.Ptr)
		f(leaf{prefix + ".len", SBV64, nil}, sl.Len)
		f(leaf{prefix + ".cap", SBV64, nil}, sl.Cap)
	case *types.Struct:
		sv, ok := v.(*StructV)
		if !ok {
			unsup("walk: expected struct for %s, have %T", t, v)
		}
		for i := 0; i < u.NumFields(); i++ {
			x.walk(u.Field(i).Type(), sv.F[i], prefix+"."+u.Field(i).Name(), f, arr)
		}
	case *types.Array:
		a, ok := v.(*ArrayRef)
		if !ok {
			unsup("walk: expected array for %s, have %T", t, v)
		}
		if arr != nil {
			arr(prefix, u, a)
		}
	case *types.Tuple:
		tv := v.(*TupleV)
		for i := 0; i < u.Len(); i++ {
			x.walk(u.At(i).Type(), tv.V[i], fmt.Sprintf("%s.%d", prefix, i), f, arr)
		}
	default:
		unsup("walk: unsupported type %s", t)
	}
}

func (x *Exec) fnID(fv *FuncV) Term {
	if fv.Sym.S != "" {
		return fv.Sym
	}
	name := "fn$"
	switch {
	case fv.Fn != nil:
		name += fv.Fn.FullName()
	case fv.Lit != nil:
		name += fmt.Sprintf("lit%d", fv.Lit.id)
	default:
		name += "nil"
	}
	return x.ctx.Const(name, SFn)
}

// zero value of a type.
func (x *Exec) zero(s *State, t types.Type) Value {
	return x.build(t, "", func(l leaf) Term { return zeroTerm(x.ctx, l.sort) }, func(path string, at *types.Array) Value {
		return x.allocArray(s, at, true, "zero")
	})
}

func zeroTerm(c *Ctx, s Sort) Term {
	switch {
	case s == SBool:
		return False
	case s.IsBV():
		return BVLit(0, s.Width())
	case s == SErr:
		return c.Const("err$nil", SErr)
	case s == SStr:
		return c.Const("str$empty", SStr)
	case s == SBytes:
		return c.Const("bytes$nil", SBytes)
	case s == SIface:
		return c.Const("iface$nil", SIface)
	case s == SFn:
		return c.Const("fn$nil", SFn)
	case s == "Float":
		return c.Const("float$zero", s)
	}
	panic("zeroTerm: " + string(s))
}

// fresh symbolic value of a type with the standing well-formedness assumptions
// (slice 0 <= len <= cap <= 2^48, nil slice has zero length).
func (x *Exec) fresh(s *State, t types.Type, hint string) Value {
	return x.build(t, "", func(l leaf) Term {
		return x.ctx.Fresh(hint+l.path, l.sort)
	}, func(path string, at *types.Array) Value {
		return x.allocArray(s, at, false, hint+path)
	})
}

const maxObj = uint64(1) << 48

func (x *Exec) assumeWF(s *State, t types.Type, v Value) {
	switch u := t.Underlying().(type) {
	case *types.Slice:
		if sl, ok := v.(*SliceV); ok {
			s.assume(Sle(I64(0), sl.Len))
			s.assume(Sle(sl.Len, sl.Cap))
			s.assume(Ule(sl.Cap, BVLit(maxObj, 64)))
			s.assume(Ule(sl.Ptr, BVLit(maxObj, 64)))
			s.assume(Implies(Eq(sl.Ptr, I64(0)), Eq(sl.Cap, I64(0))))
		}
	case *types.Struct:
		if sv, ok := v.(*StructV); ok {
			for i := 0; i < u.NumFields(); i++ {
				x.assumeWF(s, u.Field(i).Type(), sv.F[i])
			}
		}
	case *types.Basic:
		if u.Info()&types.IsString != 0 {
			if sc, ok := v.(*Scalar); ok {
				n := x.strlen(sc.T)
				s.assume(Sle(I64(0), n))
				s.assume(Ule(n, BVLit(maxObj, 64)))
			}
		}
	}
	if x.opaque && isByteSlice(t) {
		if sc, ok := v.(*Scalar); ok {
			n := x.bytesLen(sc.T)
			s.assume(Sle(I64(0), n))
			s.assume(Ule(n, BVLit(maxObj, 64)))
			s.assume(Implies(x.bytesIsNil(sc.T), Eq(n, I64(0))))
		}
	}
}

func (x *Exec) strlen(t Term) Term   { return x.ctx.UF("strlen", SBV64, t) }
func (x *Exec) bytesLen(t Term) Term { return x.ctx.UF("bytes$len", SBV64, t) }
func (x *Exec) bytesIsNil(t Term) Term {
	return Eq(t, x.ctx.Const("bytes$nil", SBytes))
}

// ---------------------------------------------------------------------------
// memory

type region struct {
	mem  string // element memory prefix
	base Term
	size Term // in elements
	tag  string
}

func (x *Exec) memSort(name string, leafSort Sort) Sort { return ArrSort(leafSort) }

// mem returns the current array term of a memory (creating the initial one).
func (x *Exec) mem(s *State, name string, leafSort Sort) Term {
	if t, ok := s.mem[name]; ok {
		return t
	}
	t := x.ctx.Const(lazyMemName(name, s.memEpoch), ArrSort(leafSort))
	s.mem[name] = t
	x.memSorts[name] = leafSort
	return t
}

func (x *Exec) setMem(s *State, name string, t Term) {
	s.mem[name] = x.ctx.Share(t)
}

// load reads a value of type t stored at element address addr of memory prefix.
func (x *Exec) load(s *State, prefix string, t types.Type, addr Term) Value {
	v := x.build(t, "", func(l leaf) Term {
		return Select(x.mem(s, prefix+l.path, l.sort), addr)
	}, func(path string, at *types.Array) Value {
		return &ArrayRef{Base: x.embBase(s, prefix+path, at, addr), N: at.Len()}
	})
	// slice headers (and strings) stored in memory are well formed: a type invariant of Go
	x.loadWF(s, t, v)
	return v
}

func (x *Exec) loadWF(s *State, t types.Type, v Value) {
	switch u := t.Underlying().(type) {
	case *types.Slice:
		if sl, ok := v.(*SliceV); ok {
			key := "wf:" + sl.Len.S
			if !s.embSeen[key] {
				s.embSeen[key] = true
				x.assumeWF(s, t, v)
			}
		} else if sc, ok := v.(*Scalar); ok && sc.T.Sort == SBytes {
			key := "wf:" + sc.T.S
			if !s.embSeen[key] {
				s.embSeen[key] = true
				x.assumeWF(s, t, v)
			}
		}
	case *types.Struct:
		if sv, ok := v.(*StructV); ok {
			for i := 0; i < u.NumFields(); i++ {
				x.loadWF(s, u.Field(i).Type(), sv.F[i])
			}
		}
	}
}

// store writes a value of type t at addr.
func (x *Exec) store(s *State, prefix string, t types.Type, addr Term, v Value) {
	x.walk(t, v, "", func(l leaf, tm Term) {
		name := prefix + l.path
		x.noteWrite(s, name, addr)
		x.setMem(s, name, Store(x.mem(s, name, l.sort), addr, tm))
	}, func(path string, at *types.Array, a *ArrayRef) {
		dst := x.embBase(s, prefix+path, at, addr)
		x.copyArray(s, at, dst, a.Base)
	})
}

// embBase is the base address (in the element memory) of an array embedded in a
// heap object at addr.
func (x *Exec) embBase(s *State, path string, at *types.Array, addr Term) Term {
	b := x.ctx.UF("emb$"+path, SBV64, addr)
	key := b.S
	if !s.embSeen[key] {
		s.embSeen[key] = true
		r := region{mem: memName(at.Elem()), base: b, size: I64(at.Len()), tag: "emb:" + path}
		x.addRegion(s, r, true)
	}
	return b
}

func (x *Exec) addRegion(s *State, r region, disjoint bool) {
	s.assume(Ule(r.base, BVLit(maxObj, 64)))
	s.assume(Ne(r.base, I64(0)))
	if disjoint {
		for _, o := range s.regions {
			if o.mem != r.mem {
				continue
			}
			if strings.HasPrefix(o.tag, "emb:") && o.tag == r.tag {
				// same field of possibly the same object: handled by congruence
				continue
			}
			s.assume(Or(Ule(Add64(r.base, r.size), o.base), Ule(Add64(o.base, o.size), r.base)))
		}
	}
	s.regions = append(s.regions, r)
}

func (x *Exec) allocArray(s *State, at *types.Array, zero bool, hint string) *ArrayRef {
	base := x.ctx.Fresh("arr$"+hint, SBV64)
	x.addRegion(s, region{mem: memName(at.Elem()), base: base, size: I64(at.Len()), tag: "local"}, true)
	a := &ArrayRef{Base: base, N: at.Len()}
	if zero {
		x.fillZero(s, at.Elem(), base, I64(at.Len()))
	}
	return a
}

// fillZero sets elements [base, base+n) of type et to zero.
func (x *Exec) fillZero(s *State, et types.Type, base Term, n Term) {
	if n.IsC && n.C <= 16 {
		for i := uint64(0); i < n.C; i++ {
			x.store(s, memName(et), et, Add64(base, I64(int64(i))), x.zero(s, et))
		}
		return
	}
	// bulk: new memory equals old outside the range and zero inside
	for _, l := range x.leaves(et) {
		name := memName(et) + l.path
		old := x.mem(s, name, l.sort)
		nw := x.ctx.Fresh("mem$"+name, ArrSort(l.sort))
		a := "a?z"
		in := fmt.Sprintf("(and (bvule %s %s) (bvult %s (bvadd %s %s)))", base.S, a, a, base.S, n.S)
		s.assume(Term{S: fmt.Sprintf("(forall ((%s (_ BitVec 64))) (= (select %s %s) (ite %s %s (select %s %s))))", a, nw.S, a, in, zeroTerm(x.ctx, l.sort).S, old.S, a), Sort: SBool})
		s.mem[name] = nw
		x.noteWriteRange(s, name, base, n)
	}
	if _, ok := et.Underlying().(*types.Array); ok {
		unsup("zeroing arrays of arrays")
	}
}

func (x *Exec) copyArray(s *State, at *types.Array, dst, src Term) {
	x.copyElems(s, at.Elem(), dst, src, I64(at.Len()))
}

// copyElems models copy/memmove of n elements of type et from src to dst.
func (x *Exec) copyElems(s *State, et types.Type, dst, src Term, n Term) {
	if n.IsC && n.C <= 16 {
		vals := make([]Value, n.C)
		for i := range vals {
			vals[i] = x.load(s, memName(et), et, Add64(src, I64(int64(i))))
		}
		for i := range vals {
			x.store(s, memName(et), et, Add64(dst, I64(int64(i))), vals[i])
		}
		return
	}
	for _, l := range x.leaves(et) {
		name := memName(et) + l.path
		old := x.mem(s, name, l.sort)
		nw := x.ctx.Fresh("mem$"+name, ArrSort(l.sort))
		a := "a?c"
		in := fmt.Sprintf("(and (bvule %s %s) (bvult %s (bvadd %s %s)))", dst.S, a, a, dst.S, n.S)
		from := fmt.Sprintf("(select %s (bvadd %s (bvsub %s %s)))", old.S, src.S, a, dst.S)
		s.assume(Term{S: fmt.Sprintf("(forall ((%s (_ BitVec 64))) (= (select %s %s) (ite %s %s (select %s %s))))", a, nw.S, a, in, from, old.S, a), Sort: SBool})
		s.mem[name] = nw
		x.noteWriteRange(s, name, dst, n)
	}
}

// havocRange forgets elements [base, base+n) of type et.
func (x *Exec) havocRange(s *State, et types.Type, base Term, n Term) {
	for _, l := range x.leaves(et) {
		name := memName(et) + l.path
		old := x.mem(s, name, l.sort)
		nw := x.ctx.Fresh("mem$"+name, ArrSort(l.sort))
		a := "a?h"
		in := fmt.Sprintf("(and (bvule %s %s) (bvult %s (bvadd %s %s)))", base.S, a, a, base.S, n.S)
		s.assume(Term{S: fmt.Sprintf("(forall ((%s (_ BitVec 64))) (=> (not %s) (= (select %s %s) (select %s %s))))", a, in, nw.S, a, old.S, a), Sort: SBool})
		s.mem[name] = nw
		x.noteWriteRange(s, name, base, n)
	}
}

func lazyMemName(name string, epoch int) string {
	if epoch == 0 {
		return "mem$" + name + "!0"
	}
	return fmt.Sprintf("mem$%s!e%d", name, epoch)
}

// havocAllMem forgets every memory (unknown callee).
func (x *Exec) havocAllMem(s *State, why string) {
	for name := range s.mem {
		sort := x.memSorts[name]
		s.mem[name] = x.ctx.Fresh("mem$"+name, ArrSort(sort))
	}
	s.memEpoch = x.newEpoch()
	x.noteWriteAll(s, why)
}

// ---------------------------------------------------------------------------
// merging

func (x *Exec) mergeValue(c Term, a, b Value) Value {
	if a == b {
		return a
	}
	switch av := a.(type) {
	case *Scalar:
		bv, ok := b.(*Scalar)
		if !ok {
			if fb, isF := b.(*FuncV); isF && av.T.Sort == SFn {
				return &Scalar{T: x.ctx.Share(Ite(c, av.T, x.fnID(fb)))}
			}
			unsup("merge: scalar vs %T", b)
		}
		if av.T.Sort != bv.T.Sort {
			unsup("merge: sort mismatch %s vs %s", av.T.Sort, bv.T.Sort)
		}
		p := av.Prov
		if bv.Prov != p {
			p = ""
		}
		return &Scalar{T: x.ctx.Share(Ite(c, av.T, bv.T)), Prov: p}
	case *SliceV:
		bv, ok := b.(*SliceV)
		if !ok {
			unsup("merge: slice vs %T", b)
		}
		return &SliceV{Ptr: x.ctx.Share(Ite(c, av.Ptr, bv.Ptr)), Len: x.ctx.Share(Ite(c, av.Len, bv.Len)), Cap: x.ctx.Share(Ite(c, av.Cap, bv.Cap))}
	case *StructV:
		bv, ok := b.(*StructV)
		if !ok || len(bv.F) != len(av.F) {
			unsup("merge: struct vs %T", b)
		}
		out := &StructV{F: make([]Value, len(av.F))}
		for i := range av.F {
			out.F[i] = x.mergeValue(c, av.F[i], bv.F[i])
		}
		return out
	case *ArrayRef:
		bv, ok := b.(*ArrayRef)
		if !ok || bv.N != av.N {
			unsup("merge: array vs %T", b)
		}
		return &ArrayRef{Base: x.ctx.Share(Ite(c, av.Base, bv.Base)), N: av.N}
	case *TupleV:
		bv, ok := b.(*TupleV)
		if !ok || len(bv.V) != len(av.V) {
			unsup("merge: tuple vs %T", b)
		}
		out := &TupleV{V: make([]Value, len(av.V))}
		for i := range av.V {
			out.V[i] = x.mergeValue(c, av.V[i], bv.V[i])
		}
		return out
	case *FuncV:
		if bv, ok := b.(*FuncV); ok {
			if av.Fn == bv.Fn && av.Lit == bv.Lit && av.Sym.S == bv.Sym.S && av.Recv == bv.Recv {
				return av
			}
			return &FuncV{Sym: x.ctx.Share(Ite(c, x.fnID(av), x.fnID(bv))), Typ: av.Typ}
		}
		if bs, ok := b.(*Scalar); ok && bs.T.Sort == SFn {
			return &Scalar{T: x.ctx.Share(Ite(c, x.fnID(av), bs.T))}
		}
		unsup("merge: func vs %T", b)
	case nil:
		return b
	}
	unsup("merge: unsupported value %T", a)
	return nil
}

func valueEq(x *Exec, t types.Type, a, b Value) Term {
	var conj []Term
	var ta, tb []Term
	x.walk(t, a, "", func(l leaf, tm Term) { ta = append(ta, tm) }, func(path string, at *types.Array, ar *ArrayRef) {
		unsup("equality on arrays")
	})
	x.walk(t, b, "", func(l leaf, tm Term) { tb = append(tb, tm) }, nil)
	if _, ok := t.Underlying().(*types.Slice); ok && !(x.opaque && isByteSlice(t)) {
		unsup("== on slices")
	}
	for i := range ta {
		conj = append(conj, Eq(ta[i], tb[i]))
	}
	return And(conj...)
}
