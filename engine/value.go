package main

import (
	"fmt"
	"go/types"
	"os"
	"strings"
)

// debugHavoc (PVC_DEBUG=1) prints why memory was forgotten wholesale.
var debugHavoc = os.Getenv("PVC_DEBUG") != ""

// Value is a symbolic Go value.
type Value interface{}

// Scalar: bool, integers, error, string, opaque bytes, interface, symbolic
// function id, map/chan references.
type Scalar struct {
	T Term
	// Ptr is set on a uintptr obtained from a byte pointer (plus or minus an
	// integer): the pointer it denotes. See the unsafe.Pointer conversions.
	Ptr *PtrV
}

// PtrV is a pointer: a region identifier and an element offset inside it.
// Region 0 is nil. Prov, when set, names the memory the pointer really points
// into when that differs from the memory of its static element type (pointer to
// a field embedded in a larger heap object, or a byte pointer cast by unsafe).
type PtrV struct {
	Rgn, Off Term
	Prov     string
}

// SliceV is a slice header; the contents live in region Rgn of the element
// memories at offsets Off .. Off+Cap-1.
type SliceV struct {
	Rgn, Off, Len, Cap Term
}

// StructV is a struct value (fields in declaration order).
type StructV struct {
	F []Value
}

// ArrayRef is an array; its N elements live in region Rgn at Off .. Off+N-1.
type ArrayRef struct {
	Rgn, Off Term
	N        int64
}

type TupleV struct {
	V []Value
}

// FuncV is a function value.
type FuncV struct {
	Fn   *types.Func // declared function or method
	Recv Value       // bound receiver for method values
	Lit  *litInfo    // function literal
	Sym  Term        // symbolic function id (parameter / field)
	Name string      // display name for callbacks
	Typ  types.Type
}

type leaf struct {
	path string
	sort Sort
	typ  types.Type
}

type unsupported struct{ msg string }

func unsup(format string, args ...interface{}) {
	panic(unsupported{fmt.Sprintf(format, args...)})
}

func isErrorType(t types.Type) bool {
	return types.Identical(t, types.Universe.Lookup("error").Type())
}

func qual(p *types.Package) string {
	if p == nil {
		return ""
	}
	return p.Path()
}

func memName(t types.Type) string {
	t = types.Unalias(t)
	if b, ok := t.(*types.Basic); ok {
		switch b.Kind() {
		case types.Uint8:
			return "uint8"
		case types.Int32:
			return "int32"
		}
		return b.Name()
	}
	s := types.TypeString(t, qual)
	s = strings.ReplaceAll(s, repoModule+"/", "")
	return s
}

func isByteSlice(t types.Type) bool {
	if s, ok := t.Underlying().(*types.Slice); ok {
		if b, ok := s.Elem().Underlying().(*types.Basic); ok && b.Kind() == types.Uint8 {
			return true
		}
	}
	return false
}

func isPointerLike(t types.Type) bool {
	switch u := t.Underlying().(type) {
	case *types.Pointer:
		return true
	case *types.Basic:
		return u.Kind() == types.UnsafePointer
	}
	return false
}

func (x *Exec) scalarSort(t types.Type) (Sort, bool) {
	switch u := t.Underlying().(type) {
	case *types.Basic:
		switch {
		case u.Info()&types.IsBoolean != 0:
			return SBool, true
		case u.Info()&types.IsInteger != 0:
			return BV(int(x.sizes.Sizeof(u)) * 8), true
		case u.Info()&types.IsString != 0:
			return SStr, true
		case u.Kind() == types.UntypedNil:
			return SBV64, true
		case u.Info()&types.IsFloat != 0:
			return Sort("Float"), true
		}
	case *types.Map, *types.Chan:
		return SBV64, true
	case *types.Interface:
		if isErrorType(t) {
			return SErr, true
		}
		return SIface, true
	case *types.Signature:
		return SFn, true
	case *types.Slice:
		if x.opaque && isByteSlice(t) {
			return SBytes, true
		}
	case *types.TypeParam:
		return SIface, true
	}
	return "", false
}

// flatten lists the leaves of a type. Arrays have no leaves: they are references
// into the element memories (see ArrayRef).
func (x *Exec) flatten(t types.Type, prefix string, out *[]leaf) {
	if s, ok := x.scalarSort(t); ok {
		if s == "Float" {
			x.ctx.sorts["Float"] = true
		}
		*out = append(*out, leaf{prefix, s, t})
		return
	}
	if isPointerLike(t) {
		*out = append(*out, leaf{prefix + ".rgn", SBV64, nil}, leaf{prefix + ".off", SBV64, nil})
		return
	}
	switch u := t.Underlying().(type) {
	case *types.Slice:
		*out = append(*out, leaf{prefix + ".rgn", SBV64, nil}, leaf{prefix + ".off", SBV64, nil},
			leaf{prefix + ".len", SBV64, nil}, leaf{prefix + ".cap", SBV64, nil})
	case *types.Struct:
		for i := 0; i < u.NumFields(); i++ {
			x.flatten(u.Field(i).Type(), prefix+"."+u.Field(i).Name(), out)
		}
	case *types.Array:
		// no leaves
	case *types.Tuple:
		for i := 0; i < u.Len(); i++ {
			x.flatten(u.At(i).Type(), fmt.Sprintf("%s.%d", prefix, i), out)
		}
	default:
		unsup("flatten: unsupported type %s", t)
	}
}

func (x *Exec) leaves(t types.Type) []leaf {
	key := t.String()
	if x.opaque {
		key = "opaque:" + key
	}
	if l, ok := x.leafCache[key]; ok {
		return l
	}
	var out []leaf
	x.flatten(t, "", &out)
	x.leafCache[key] = out
	return out
}

// build constructs a value of type t; leafFn supplies the leaf terms in order and
// arrFn supplies array references for array-typed components (path given).
func (x *Exec) build(t types.Type, prefix string, leafFn func(l leaf) Term, arrFn func(path string, at *types.Array) Value) Value {
	if s, ok := x.scalarSort(t); ok {
		return &Scalar{T: leafFn(leaf{prefix, s, t})}
	}
	if isPointerLike(t) {
		return &PtrV{Rgn: leafFn(leaf{prefix + ".rgn", SBV64, nil}), Off: leafFn(leaf{prefix + ".off", SBV64, nil})}
	}
	switch u := t.Underlying().(type) {
	case *types.Slice:
		return &SliceV{
			Rgn: leafFn(leaf{prefix + ".rgn", SBV64, nil}),
			Off: leafFn(leaf{prefix + ".off", SBV64, nil}),
			Len: leafFn(leaf{prefix + ".len", SBV64, nil}),
			Cap: leafFn(leaf{prefix + ".cap", SBV64, nil}),
		}
	case *types.Struct:
		sv := &StructV{F: make([]Value, u.NumFields())}
		for i := 0; i < u.NumFields(); i++ {
			sv.F[i] = x.build(u.Field(i).Type(), prefix+"."+u.Field(i).Name(), leafFn, arrFn)
		}
		return sv
	case *types.Array:
		return arrFn(prefix, u)
	case *types.Tuple:
		tv := &TupleV{V: make([]Value, u.Len())}
		for i := 0; i < u.Len(); i++ {
			tv.V[i] = x.build(u.At(i).Type(), fmt.Sprintf("%s.%d", prefix, i), leafFn, arrFn)
		}
		return tv
	}
	unsup("build: unsupported type %s", t)
	return nil
}

// walk visits the leaf terms of a value in flatten order.
func (x *Exec) walk(t types.Type, v Value, prefix string, f func(l leaf, t Term), arr func(path string, at *types.Array, a *ArrayRef)) {
	if s, ok := x.scalarSort(t); ok {
		sc, ok := v.(*Scalar)
		if !ok {
			if fv, isF := v.(*FuncV); isF && s == SFn {
				f(leaf{prefix, s, t}, x.fnID(fv))
				return
			}
			unsup("walk: expected scalar for %s, have %T", t, v)
		}
		f(leaf{prefix, s, t}, sc.T)
		return
	}
	if isPointerLike(t) {
		p, ok := v.(*PtrV)
		if !ok {
			unsup("walk: expected pointer for %s, have %T", t, v)
		}
		if p.Prov != "" {
			if pt, isP := t.Underlying().(*types.Pointer); !isP || memName(pt.Elem()) != p.Prov {
				// the provenance is lost when a pointer is flattened (stored, merged, compared)
				x.provLost = true
			}
		}
		f(leaf{prefix + ".rgn", SBV64, nil}, p.Rgn)
		f(leaf{prefix + ".off", SBV64, nil}, p.Off)
		return
	}
	switch u := t.Underlying().(type) {
	case *types.Slice:
		sl, ok := v.(*SliceV)
		if !ok {
			unsup("walk: expected slice for %s, have %T", t, v)
		}
		f(leaf{prefix + ".rgn", SBV64, nil}, sl.Rgn)
		f(leaf{prefix + ".off", SBV64, nil}, sl.Off)
		f(leaf{prefix + ".len", SBV64, nil}, sl.Len)
		f(leaf{prefix + ".cap", SBV64, nil}, sl.Cap)
	case *types.Struct:
		sv, ok := v.(*StructV)
		if !ok {
			unsup("walk: expected struct for %s, have %T", t, v)
		}
		for i := 0; i < u.NumFields(); i++ {
			x.walk(u.Field(i).Type(), sv.F[i], prefix+"."+u.Field(i).Name(), f, arr)
		}
	case *types.Array:
		a, ok := v.(*ArrayRef)
		if !ok {
			unsup("walk: expected array for %s, have %T", t, v)
		}
		if arr != nil {
			arr(prefix, u, a)
		}
	case *types.Tuple:
		tv := v.(*TupleV)
		for i := 0; i < u.Len(); i++ {
			x.walk(u.At(i).Type(), tv.V[i], fmt.Sprintf("%s.%d", prefix, i), f, arr)
		}
	default:
		unsup("walk: unsupported type %s", t)
	}
}

func (x *Exec) fnID(fv *FuncV) Term {
	if fv.Sym.S != "" {
		return fv.Sym
	}
	name := "fn$"
	switch {
	case fv.Fn != nil:
		name += fv.Fn.FullName()
	case fv.Lit != nil:
		name += fmt.Sprintf("lit%d", fv.Lit.id)
	default:
		name += "nil"
	}
	return x.ctx.Const(name, SFn)
}

// zero value of a type.
func (x *Exec) zero(s *State, t types.Type) Value {
	return x.build(t, "", func(l leaf) Term { return zeroTerm(x.ctx, l.sort) }, func(path string, at *types.Array) Value {
		return x.allocArray(s, at, true, "zero")
	})
}

func zeroTerm(c *Ctx, s Sort) Term {
	switch {
	case s == SBool:
		return False
	case s.IsBV():
		return BVLit(0, s.Width())
	case s == SErr:
		return c.Const("err$nil", SErr)
	case s == SStr:
		return c.Const("str$empty", SStr)
	case s == SBytes:
		return c.Const("bytes$nil", SBytes)
	case s == SIface:
		return c.Const("iface$nil", SIface)
	case s == SFn:
		return c.Const("fn$nil", SFn)
	case s == "Float":
		return c.Const("float$zero", s)
	}
	panic("zeroTerm: " + string(s))
}

// fresh symbolic value of a type.
func (x *Exec) fresh(s *State, t types.Type, hint string) Value {
	return x.build(t, "", func(l leaf) Term {
		return x.ctx.Fresh(hint+l.path, l.sort)
	}, func(path string, at *types.Array) Value {
		return x.allocArray(s, at, false, hint+path)
	})
}

// maxObj bounds the capacity of any existing slice: the amd64 user address space
// is 2^47 bytes. makeLimit is the size above which makeslice panics (runtime
// maxAlloc = 2^48 on linux/amd64); sizes in between end in an out-of-memory
// fatal error, which is not a panic.
const maxObj = uint64(1) << 47
const makeLimit = uint64(1) << 48

// firstAlloc: region identifiers at or above this value are allocations made
// during the verified function; everything that existed before is below it.
const firstAlloc = uint64(1) << 60

// assumeWF: standing well-formedness facts about slice headers, pointers and
// strings (0 <= len <= cap <= 2^48, offsets below 2^48, nil has no capacity).
func (x *Exec) assumeWF(s *State, t types.Type, v Value) {
	switch u := t.Underlying().(type) {
	case *types.Slice:
		if sl, ok := v.(*SliceV); ok {
			s.assume(Sle(I64(0), sl.Len))
			s.assume(Sle(sl.Len, sl.Cap))
			s.assume(Ule(sl.Cap, BVLit(maxObj, 64)))
			s.assume(Ule(sl.Off, BVLit(maxObj, 64)))
			s.assume(Implies(Eq(sl.Rgn, I64(0)), And(Eq(sl.Cap, I64(0)), Eq(sl.Off, I64(0)))))
		}
	case *types.Pointer:
		if p, ok := v.(*PtrV); ok {
			s.assume(Ule(p.Off, BVLit(maxObj, 64)))
			s.assume(Implies(Eq(p.Rgn, I64(0)), Eq(p.Off, I64(0))))
		}
	case *types.Struct:
		if sv, ok := v.(*StructV); ok {
			for i := 0; i < u.NumFields(); i++ {
				x.assumeWF(s, u.Field(i).Type(), sv.F[i])
			}
		}
	case *types.Basic:
		if u.Info()&types.IsString != 0 {
			if sc, ok := v.(*Scalar); ok {
				n := x.strlen(sc.T)
				s.assume(Sle(I64(0), n))
				s.assume(Ule(n, BVLit(maxObj, 64)))
			}
		}
	}
	if x.opaque && isByteSlice(t) {
		if sc, ok := v.(*Scalar); ok {
			n := x.bytesLen(sc.T)
			s.assume(Sle(I64(0), n))
			s.assume(Ule(n, BVLit(maxObj, 64)))
			s.assume(Implies(x.bytesIsNil(sc.T), Eq(n, I64(0))))
		}
	}
}

// assumePreexisting: every region reachable from a parameter existed before the
// call, so it differs from every region allocated during it.
func (x *Exec) assumePreexisting(s *State, t types.Type, v Value) {
	switch u := t.Underlying().(type) {
	case *types.Slice:
		if sl, ok := v.(*SliceV); ok {
			s.assume(Ult(sl.Rgn, BVLit(firstAlloc, 64)))
		}
	case *types.Pointer:
		if p, ok := v.(*PtrV); ok {
			s.assume(Ult(p.Rgn, BVLit(firstAlloc, 64)))
		}
	case *types.Struct:
		if sv, ok := v.(*StructV); ok {
			for i := 0; i < u.NumFields(); i++ {
				x.assumePreexisting(s, u.Field(i).Type(), sv.F[i])
			}
		}
	}
}

func (x *Exec) strlen(t Term) Term   { return x.ctx.UF("strlen", SBV64, t) }
func (x *Exec) bytesLen(t Term) Term { return x.ctx.UF("bytes$len", SBV64, t) }
func (x *Exec) bytesIsNil(t Term) Term {
	return Eq(t, x.ctx.Const("bytes$nil", SBytes))
}

// ---------------------------------------------------------------------------
// memory: one two-level array per (type, leaf path): region -> offset -> value

type region struct {
	mem string // element memory prefix
	rgn Term
	tag string // param:<name> | emb:<path> | local | alloc
}

func outerSort(leafSort Sort) Sort { return ArrSort(ArrSort(leafSort)) }

// mem returns the current (outer) array term of a memory, creating the initial one.
func (x *Exec) mem(s *State, name string, leafSort Sort) Term {
	if t, ok := s.mem[name]; ok {
		return t
	}
	t := x.ctx.Const(x.lazyName(s, name), outerSort(leafSort))
	s.mem[name] = t
	x.memSorts[name] = leafSort
	return t
}

func (x *Exec) setMem(s *State, name string, t Term) {
	s.mem[name] = x.ctx.Share(t)
}

// inner is the offset->value array of a region.
func (x *Exec) inner(s *State, name string, leafSort Sort, rgn Term) Term {
	return Select(x.mem(s, name, leafSort), rgn)
}

func (x *Exec) rd(s *State, name string, leafSort Sort, rgn, off Term) Term {
	return Select(x.inner(s, name, leafSort, rgn), off)
}

func (x *Exec) wr(s *State, name string, leafSort Sort, rgn, off, v Term) {
	m := x.mem(s, name, leafSort)
	x.noteWrite(s, name, rgn, off)
	x.setMem(s, name, Store(m, rgn, Store(Select(m, rgn), off, v)))
}

func (x *Exec) setInner(s *State, name string, leafSort Sort, rgn Term, arr Term) {
	m := x.mem(s, name, leafSort)
	x.setMem(s, name, Store(m, rgn, arr))
}

// load reads a value of type t stored at (rgn, off) of memory prefix.
func (x *Exec) load(s *State, prefix string, t types.Type, rgn, off Term) Value {
	v := x.build(t, "", func(l leaf) Term {
		r := x.rd(s, prefix+l.path, l.sort, rgn, off)
		// A region identifier read from a memory that nothing has written or forgotten
		// since the function was entered names an object that existed on entry: it
		// differs from every region this function allocates.
		if strings.HasSuffix(l.path, ".rgn") && l.sort == SBV64 {
			if m, ok := s.mem[prefix+l.path]; ok && strings.HasPrefix(m.S, "mem$") && strings.HasSuffix(m.S, "!0") && !strings.ContainsAny(m.S, " (") {
				key := "pre:" + r.S
				if !s.embSeen[key] {
					s.embSeen[key] = true
					s.assume(Ult(r, BVLit(firstAlloc, 64)))
				}
			}
		}
		return r
	}, func(path string, at *types.Array) Value {
		return &ArrayRef{Rgn: x.embRgn(s, prefix+path, at, rgn, off), Off: I64(0), N: at.Len()}
	})
	// slice headers (and strings) stored in memory are well formed: a type invariant of Go
	x.loadWF(s, t, v)
	return v
}

func (x *Exec) loadWF(s *State, t types.Type, v Value) {
	switch u := t.Underlying().(type) {
	case *types.Slice:
		if sl, ok := v.(*SliceV); ok {
			key := "wf:" + sl.Len.S
			if !s.embSeen[key] {
				s.embSeen[key] = true
				x.assumeWF(s, t, v)
			}
		} else if sc, ok := v.(*Scalar); ok && sc.T.Sort == SBytes {
			key := "wf:" + sc.T.S
			if !s.embSeen[key] {
				s.embSeen[key] = true
				x.assumeWF(s, t, v)
			}
		}
	case *types.Pointer:
		if p, ok := v.(*PtrV); ok {
			key := "wf:" + p.Off.S
			if !s.embSeen[key] {
				s.embSeen[key] = true
				x.assumeWF(s, t, v)
			}
		}
	case *types.Struct:
		if sv, ok := v.(*StructV); ok {
			for i := 0; i < u.NumFields(); i++ {
				x.loadWF(s, u.Field(i).Type(), sv.F[i])
			}
		}
	}
}

// store writes a value of type t at (rgn, off).
func (x *Exec) store(s *State, prefix string, t types.Type, rgn, off Term, v Value) {
	x.walk(t, v, "", func(l leaf, tm Term) {
		x.wr(s, prefix+l.path, l.sort, rgn, off, tm)
	}, func(path string, at *types.Array, a *ArrayRef) {
		dst := x.embRgn(s, prefix+path, at, rgn, off)
		x.copyElems(s, at.Elem(), dst, I64(0), a.Rgn, a.Off, I64(at.Len()))
	})
}

// embRgn is the region of an array embedded in the heap object at (rgn, off).
func (x *Exec) embRgn(s *State, path string, at *types.Array, rgn, off Term) Term {
	b := x.ctx.UF("emb$"+path, SBV64, rgn, off)
	key := b.S
	if !s.embSeen[key] {
		s.embSeen[key] = true
		x.addRegion(s, region{mem: memName(at.Elem()), rgn: b, tag: "emb:" + path})
	}
	return b
}

// addRegion records a region and assumes it differs from the regions known so far
// (embedded arrays of the same field in possibly the same object excepted).
func (x *Exec) addRegion(s *State, r region) {
	s.assume(Ne(r.rgn, I64(0)))
	if strings.HasPrefix(r.tag, "emb:") {
		s.assume(Ult(r.rgn, BVLit(firstAlloc, 64)))
	}
	for _, o := range s.regions {
		if r.rgn.IsC && o.rgn.IsC {
			continue
		}
		if strings.HasPrefix(o.tag, "emb:") && o.tag == r.tag {
			continue // same field: equal iff same object (function congruence); not assumed distinct
		}
		if !strings.HasPrefix(r.tag, "emb:") && !strings.HasPrefix(o.tag, "emb:") && !r.rgn.IsC && !o.rgn.IsC {
			continue // two parameters: handled by the non-aliasing assumption of verify.go
		}
		if r.rgn.IsC != o.rgn.IsC && !strings.HasPrefix(r.tag, "emb:") && !strings.HasPrefix(o.tag, "emb:") {
			continue // allocation vs. parameter: separated by the firstAlloc bound
		}
		if (r.rgn.IsC && strings.HasPrefix(o.tag, "emb:")) || (o.rgn.IsC && strings.HasPrefix(r.tag, "emb:")) {
			continue // allocation vs. embedded array: separated by the firstAlloc bound
		}
		s.assume(Ne(r.rgn, o.rgn))
	}
	s.regions = append(s.regions, r)
}

// newRegion allocates a fresh region: a literal identifier, distinct from every
// other allocation and (by the firstAlloc bound) from everything pre-existing.
func (x *Exec) newRegion(s *State, mem, tag string) Term {
	x.allocs++
	r := BVLit(firstAlloc+uint64(x.allocs), 64)
	s.regions = append(s.regions, region{mem: mem, rgn: r, tag: tag})
	return r
}

func (x *Exec) allocArray(s *State, at *types.Array, zero bool, hint string) *ArrayRef {
	r := x.newRegion(s, memName(at.Elem()), "local")
	a := &ArrayRef{Rgn: r, Off: I64(0), N: at.Len()}
	if zero {
		x.fillZero(s, at.Elem(), r, I64(0), I64(at.Len()))
	}
	return a
}

func inRange(off, n Term, a string) string {
	// off <= a < off+n, written as (a - off) <u n: equivalent because off+n never wraps
	// (both are at most 2^48), and much cheaper for bit-blasting solvers.
	if off.IsC && off.C == 0 {
		return fmt.Sprintf("(bvult %s %s)", a, n.S)
	}
	return fmt.Sprintf("(bvult (bvsub %s %s) %s)", a, off.S, n.S)
}

// fillZero sets elements [off, off+n) of region rgn (element type et) to zero.
func (x *Exec) fillZero(s *State, et types.Type, rgn, off, n Term) {
	if n.IsC && n.C <= 16 {
		for i := uint64(0); i < n.C; i++ {
			x.store(s, memName(et), et, rgn, Add64(off, I64(int64(i))), x.zero(s, et))
		}
		return
	}
	if _, ok := et.Underlying().(*types.Array); ok {
		unsup("zeroing arrays of arrays")
	}
	for _, l := range x.leaves(et) {
		name := memName(et) + l.path
		old := x.inner(s, name, l.sort, rgn)
		nw := x.ctx.Fresh("in$"+name, ArrSort(l.sort))
		a := x.boundName("a")
		s.assume(Term{S: fmt.Sprintf("(forall ((%s (_ BitVec 64))) (= (select %s %s) (ite %s %s (select %s %s))))", a, nw.S, a, inRange(off, n, a), zeroTerm(x.ctx, l.sort).S, old.S, a), Sort: SBool})
		x.noteWriteRange(s, name, rgn, off, n)
		x.setInner(s, name, l.sort, rgn, nw)
	}
}

// copyElems models copy/memmove of n elements of type et.
func (x *Exec) copyElems(s *State, et types.Type, dstR, dstO, srcR, srcO, n Term) {
	if n.IsC && n.C <= 16 {
		vals := make([]Value, n.C)
		for i := range vals {
			vals[i] = x.load(s, memName(et), et, srcR, Add64(srcO, I64(int64(i))))
		}
		for i := range vals {
			x.store(s, memName(et), et, dstR, Add64(dstO, I64(int64(i))), vals[i])
		}
		return
	}
	for _, l := range x.leaves(et) {
		name := memName(et) + l.path
		oldD := x.ctx.Share(x.inner(s, name, l.sort, dstR))
		oldS := x.ctx.Share(x.inner(s, name, l.sort, srcR))
		nw := x.ctx.Fresh("in$"+name, ArrSort(l.sort))
		a := x.boundName("a")
		from := fmt.Sprintf("(select %s (bvadd %s (bvsub %s %s)))", oldS.S, srcO.S, a, dstO.S)
		s.assume(Term{S: fmt.Sprintf("(forall ((%s (_ BitVec 64))) (= (select %s %s) (ite %s %s (select %s %s))))", a, nw.S, a, inRange(dstO, n, a), from, oldD.S, a), Sort: SBool})
		x.noteWriteRange(s, name, dstR, dstO, n)
		x.setInner(s, name, l.sort, dstR, nw)
	}
}

// havocRange forgets elements [off, off+n) of region rgn.
func (x *Exec) havocRange(s *State, et types.Type, rgn, off, n Term) {
	for _, l := range x.leaves(et) {
		name := memName(et) + l.path
		old := x.ctx.Share(x.inner(s, name, l.sort, rgn))
		nw := x.ctx.Fresh("in$"+name, ArrSort(l.sort))
		a := x.boundName("a")
		s.assume(Term{S: fmt.Sprintf("(forall ((%s (_ BitVec 64))) (=> (not %s) (= (select %s %s) (select %s %s))))", a, inRange(off, n, a), nw.S, a, old.S, a), Sort: SBool})
		x.noteWriteRange(s, name, rgn, off, n)
		x.setInner(s, name, l.sort, rgn, nw)
	}
}

func (x *Exec) boundName(hint string) string {
	x.ctx.n++
	return fmt.Sprintf("%s?%d", hint, x.ctx.n)
}

func lazyMemName(name string, epoch int) string {
	if epoch == 0 {
		return "mem$" + name + "!0"
	}
	return fmt.Sprintf("mem$%s!e%d", name, epoch)
}

// havocAllMem forgets every memory (unknown callee).
func (x *Exec) havocAllMem(s *State, why string) {
	if debugHavoc {
		fmt.Fprintln(os.Stderr, "pvc: all memory forgotten:", why)
	}
	for name := range s.mem {
		sort := x.memSorts[name]
		s.mem[name] = x.ctx.Fresh("mem$"+name, outerSort(sort))
	}
	s.memEpoch = x.newEpoch()
	s.privEpoch, s.fReach, s.fReachAll = s.memEpoch, nil, false
	x.noteWriteAll(s, why)
}

// ---------------------------------------------------------------------------
// merging

func (x *Exec) mergeValue(c Term, a, b Value) Value {
	if a == b {
		return a
	}
	ite := func(p, q Term) Term { return x.ctx.Share(Ite(c, p, q)) }
	switch av := a.(type) {
	case *Scalar:
		bv, ok := b.(*Scalar)
		if !ok {
			if fb, isF := b.(*FuncV); isF && av.T.Sort == SFn {
				return &Scalar{T: ite(av.T, x.fnID(fb))}
			}
			unsup("merge: scalar vs %T", b)
		}
		if av.T.Sort != bv.T.Sort {
			unsup("merge: sort mismatch %s vs %s", av.T.Sort, bv.T.Sort)
		}
		return &Scalar{T: ite(av.T, bv.T)}
	case *PtrV:
		bv, ok := b.(*PtrV)
		if !ok {
			unsup("merge: pointer vs %T", b)
		}
		p := av.Prov
		if bv.Prov != p {
			// nil pointers carry no provenance
			switch {
			case av.Rgn.IsC && av.Rgn.C == 0:
				p = bv.Prov
			case bv.Rgn.IsC && bv.Rgn.C == 0:
			default:
				unsup("merge: pointers into different memories (%q, %q)", av.Prov, bv.Prov)
			}
		}
		return &PtrV{Rgn: ite(av.Rgn, bv.Rgn), Off: ite(av.Off, bv.Off), Prov: p}
	case *SliceV:
		bv, ok := b.(*SliceV)
		if !ok {
			unsup("merge: slice vs %T", b)
		}
		return &SliceV{Rgn: ite(av.Rgn, bv.Rgn), Off: ite(av.Off, bv.Off), Len: ite(av.Len, bv.Len), Cap: ite(av.Cap, bv.Cap)}
	case *StructV:
		bv, ok := b.(*StructV)
		if !ok || len(bv.F) != len(av.F) {
			unsup("merge: struct vs %T", b)
		}
		out := &StructV{F: make([]Value, len(av.F))}
		for i := range av.F {
			out.F[i] = x.mergeValue(c, av.F[i], bv.F[i])
		}
		return out
	case *ArrayRef:
		bv, ok := b.(*ArrayRef)
		if !ok || bv.N != av.N {
			unsup("merge: array vs %T", b)
		}
		return &ArrayRef{Rgn: ite(av.Rgn, bv.Rgn), Off: ite(av.Off, bv.Off), N: av.N}
	case *TupleV:
		bv, ok := b.(*TupleV)
		if !ok || len(bv.V) != len(av.V) {
			unsup("merge: tuple vs %T", b)
		}
		out := &TupleV{V: make([]Value, len(av.V))}
		for i := range av.V {
			out.V[i] = x.mergeValue(c, av.V[i], bv.V[i])
		}
		return out
	case *FuncV:
		if bv, ok := b.(*FuncV); ok {
			if av.Fn == bv.Fn && av.Lit == bv.Lit && av.Sym.S == bv.Sym.S && av.Recv == bv.Recv {
				return av
			}
			return &FuncV{Sym: ite(x.fnID(av), x.fnID(bv)), Typ: av.Typ}
		}
		if bs, ok := b.(*Scalar); ok && bs.T.Sort == SFn {
			return &Scalar{T: ite(x.fnID(av), bs.T)}
		}
		unsup("merge: func vs %T", b)
	case *heapVar:
		if bv, ok := b.(*heapVar); ok && bv.rgn.S == av.rgn.S {
			return av
		}
		unsup("merge: distinct heap variables")
	case nil:
		return b
	}
	unsup("merge: unsupported value %T", a)
	return nil
}

func valueEq(x *Exec, t types.Type, a, b Value) Term {
	var conj []Term
	var ta, tb []Term
	if _, ok := t.Underlying().(*types.Slice); ok && !(x.opaque && isByteSlice(t)) {
		unsup("== on slices")
	}
	x.walk(t, a, "", func(l leaf, tm Term) { ta = append(ta, tm) }, func(path string, at *types.Array, ar *ArrayRef) {
		unsup("equality on arrays")
	})
	x.walk(t, b, "", func(l leaf, tm Term) { tb = append(tb, tm) }, nil)
	for i := range ta {
		conj = append(conj, Eq(ta[i], tb[i]))
	}
	return And(conj...)
}
