package main

import (
	"encoding/json"
	"fmt"
	"os"
)

type replayFile struct {
	Property   string            `json:"property"`
	Obligation string            `json:"obligation"`
	Function   string            `json:"function"`
	Reason     string            `json:"reason"` // refuted undischarged missing left-subset contract-drift vacuous load
	Text       string            `json:"text"`
	Detail     string            `json:"detail,omitempty"`
	Source     string            `json:"source_position,omitempty"`
	Solver     string            `json:"solver,omitempty"`
	SolverOut  string            `json:"solver_output,omitempty"`
	Model      map[string]string `json:"model,omitempty"`
	Query      string            `json:"smt2,omitempty"`
	Replay     *replayRun        `json:"replay,omitempty"`
	Confirmed  bool              `json:"confirmed_on_real_code"`
	Note       string            `json:"note"`
}

type replayRun struct {
	Package  string `json:"package"`
	TestSrc  string `json:"test_source"`
	Cmd      string `json:"cmd"`
	Output   string `json:"output"`
	Outcome  string `json:"outcome"` // confirmed not-reproduced skipped error
	Why      string `json:"why,omitempty"`
}

// writeReplay stores what is known about a failed obligation and, for refuted
// obligations with a model, tries to reproduce the failure on the real code.
func writeReplay(w *World, prop string, v violation, path string) bool {
	rf := replayFile{Property: prop, Reason: v.reason, Detail: v.detail}
	if v.fn != nil {
		rf.Function = v.fn.Name
	}
	if v.obl != nil {
		o := v.obl
		rf.Obligation = o.Name
		rf.Text = o.Text
		rf.Solver = o.Solver
		rf.SolverOut = o.Raw
		rf.Model = o.Model
		rf.Query = o.Query
		if w != nil && o.Pos.IsValid() {
			rf.Source = w.Fset.Position(o.Pos).String()
		}
	}
	switch v.reason {
	case "refuted":
		rf.Note = "the solver produced a counterexample to this obligation"
		if w != nil && v.fn != nil {
			rf.Replay = tryReplay(w, v)
			if rf.Replay != nil && rf.Replay.Outcome == "confirmed" {
				rf.Confirmed = true
			}
		}
	case "undischarged":
		rf.Note = "no solver discharged this obligation within the time limit (it was discharged on the pinned tree); no failing input found"
		if w != nil && v.fn != nil && v.obl != nil && v.obl.CandQuery != "" {
			// the quantifier-free weakening has a model: try it on the real code
			rf.Replay = tryReplay(w, v)
			if rf.Replay != nil && rf.Replay.Outcome == "confirmed" {
				rf.Confirmed = true
				rf.Note = "undischarged; a candidate counterexample from the quantifier-free weakening of the obligation was confirmed on the real code"
			}
		}
	case "missing":
		rf.Note = "an obligation that the ledger expects is no longer generated (function, loop or call site removed or renamed)"
	case "left-subset":
		rf.Note = "the function left the subset of Go the checker supports, so its obligations cannot be generated"
	case "contract-drift":
		rf.Note = "the contract no longer type-checks against the code (renamed parameter, field or function)"
	case "vacuous":
		rf.Note = "vacuity guard failed: a precondition/invariant is unsatisfiable or no return is reachable"
	case "load":
		rf.Note = "the package does not load or type-check with the contract files enabled"
	}
	data, _ := json.MarshalIndent(rf, "", " ")
	if err := os.WriteFile(path, data, 0o644); err != nil {
		fmt.Fprintln(os.Stderr, "cannot write replay file:", err)
	}
	return rf.Confirmed
}

func replayMain(args []string) int {
	if len(args) != 1 {
		fmt.Fprintln(os.Stderr, "usage: pvc replay <file>")
		return 2
	}
	data, err := os.ReadFile(args[0])
	if err != nil {
		fmt.Fprintln(os.Stderr, err)
		return 2
	}
	var rf replayFile
	if err := json.Unmarshal(data, &rf); err != nil {
		fmt.Fprintln(os.Stderr, err)
		return 2
	}
	fmt.Printf("property %s, obligation %s (%s)\n  %s\n", rf.Property, rf.Obligation, rf.Reason, rf.Text)
	if rf.Replay == nil || rf.Replay.TestSrc == "" {
		fmt.Println("no executable replay stored:", rf.Note)
		return 1
	}
	out, outcome := runReplayTest(rf.Replay.Package, rf.Replay.TestSrc)
	fmt.Println(out)
	fmt.Println("outcome:", outcome)
	if outcome == "confirmed" {
		return 1
	}
	return 0
}
