package main

import (
	"bufio"
	"encoding/json"
	"flag"
	"fmt"
	"os"
	"path/filepath"
	"regexp"
	"sort"
	"strconv"
	"strings"
	"time"
)

const verifRoot = "/verif"

type ledgerFile struct {
	Property    string   `json:"property"`
	Obligations []string `json:"obligations"` // base names (without ~n path suffix) proved on the pinned tree
	Functions   []string `json:"functions"`
}

type knownFinding struct {
	kind     string // known | fixed
	property string
	obl      string // obligation base name (known:)
	text     string
}

func loadKnownFindings() []knownFinding {
	var out []knownFinding
	f, err := os.Open(filepath.Join(verifRoot, "known_findings.txt"))
	if err != nil {
		return nil
	}
	defer f.Close()
	sc := bufio.NewScanner(f)
	re := regexp.MustCompile(`^(known|fixed):\s+property=(\S+)\s+(?:obligation=(\S+)\s+)?(.*)$`)
	for sc.Scan() {
		line := strings.TrimSpace(sc.Text())
		if line == "" || strings.HasPrefix(line, "#") {
			continue
		}
		m := re.FindStringSubmatch(line)
		if m == nil {
			continue
		}
		out = append(out, knownFinding{kind: m[1], property: m[2], obl: m[3], text: m[4]})
	}
	return out
}

var pathSuffix = regexp.MustCompile(`~\d+$`)

func baseName(n string) string { return pathSuffix.ReplaceAllString(n, "") }

type oblReport struct {
	Name   string `json:"name"`
	Kind   string `json:"kind"`
	Result string `json:"result"`
	Solver string `json:"solver"`
	Ms     int64  `json:"ms"`
	Text   string `json:"text,omitempty"`
}

type funcReport struct {
	Name       string   `json:"name"`
	File       string   `json:"file"`
	SrcSHA     string   `json:"body_sha256_prefix"`
	Loops      int      `json:"loops"`
	Obls       int      `json:"obligations"`
	Inlined    []string `json:"inlined_callees,omitempty"`
	Abstracted []string `json:"abstracted,omitempty"`
	Contract   string   `json:"contract"`
}

type violation struct {
	obl    *Obligation
	fn     *FuncResult
	reason string // refuted undischarged missing left-subset vacuous load
	detail string
}

func checkMain(args []string) int {
	fs := flag.NewFlagSet("check", flag.ExitOnError)
	tier := fs.String("tier", "quick", "quick or thorough")
	update := fs.Bool("update-ledger", false, "rewrite the ledger from this run (only if everything is proved)")
	reset := fs.Bool("reset-ledger", false, "with -update-ledger: ignore the existing ledger (after a contract change)")
	fs.Parse(args)
	if fs.NArg() != 1 {
		fmt.Fprintln(os.Stderr, "usage: pvc check [-tier quick|thorough] <property>")
		return 2
	}
	prop := fs.Arg(0)
	if t := os.Getenv("VERIF_TIER"); t == "thorough" || t == "quick" {
		if *tier == "quick" && t == "thorough" {
			// the explicit flag wins only when it asks for more
			*tier = t
		}
	}
	seed := 0
	if v := os.Getenv("VERIF_SEED"); v != "" {
		seed, _ = strconv.Atoi(v)
	}
	var oldLed ledgerFile
	ledPath := filepath.Join(verifRoot, "ledger", prop+".json")
	if *reset {
		if data, err := os.ReadFile(ledPath); err == nil {
			json.Unmarshal(data, &oldLed)
		}
		os.Remove(ledPath)
	}
	rc := runCheck(prop, *tier, seed, *update, nil, "")
	if *reset {
		// never drop expected obligations silently: show what the new ledger lost
		var newLed ledgerFile
		if data, err := os.ReadFile(ledPath); err == nil {
			json.Unmarshal(data, &newLed)
		}
		have := map[string]bool{}
		for _, o := range newLed.Obligations {
			have[o] = true
		}
		n := 0
		for _, o := range oldLed.Obligations {
			if !have[o] {
				fmt.Println("ledger: no longer expected:", o)
				n++
			}
		}
		if n > 0 {
			fmt.Printf("ledger: %d obligations of the previous ledger are gone; make sure each one moved or was renamed on purpose\n", n)
		}
	}
	return rc
}

// propertyDirs finds the package directories whose contract files mention prop.
func propertyDirs(prop string, overlay map[string][]byte) ([]string, error) {
	files, err := findContractFiles(repoRoot)
	if err != nil {
		return nil, err
	}
	re := regexp.MustCompile(`//@\s+props\s.*\b` + regexp.QuoteMeta(prop) + `\b`)
	var dirs []string
	for _, f := range files {
		data, ok := overlay[f]
		if !ok {
			data, err = os.ReadFile(f)
			if err != nil {
				continue
			}
		}
		if re.Match(data) {
			rel, _ := filepath.Rel(repoRoot, filepath.Dir(f))
			dirs = append(dirs, rel)
		}
	}
	return dirs, nil
}

func hasProp(c *Contract, prop string) bool {
	for _, p := range c.Block.Props {
		if p == prop {
			return true
		}
	}
	return false
}

// runCheck is the whole check for one property. overlay (optional) replaces
// source files in memory (used by the must-fail self test); quiet suppresses
// evidence/replay writing when outDir is non-empty (self test).
func runCheck(prop, tier string, seed int, update bool, overlay map[string][]byte, selftestDir string) int {
	t0 := time.Now()
	// per-obligation limit; obligations claimed discharge in well under a quarter of it
	// on an idle machine. The margin is for a loaded one: the slowest obligations
	// (Fragmenter.truncateAndFlush's invariants, flush1's range bounds, valblk.EncodeHandle)
	// take 10-20 s idle and were seen at 36 s, once beyond 60 s, with other jobs running.
	timeout := 150000
	if tier == "thorough" {
		timeout = 300000
	}
	selftest := selftestDir != ""
	var viols []violation
	var results []*FuncResult
	var loadErr string
	dirs, err := propertyDirs(prop, overlay)
	if err != nil || len(dirs) == 0 {
		loadErr = fmt.Sprintf("no contract file mentions property %s (%v)", prop, err)
	}
	var w *World
	if loadErr == "" {
		w, err = LoadWorld(dirs, overlay)
		if err != nil {
			loadErr = err.Error()
		}
	}
	loadS := time.Since(t0).Seconds()
	if loadErr == "" {
		for _, c := range w.All {
			if !hasProp(c, prop) {
				continue
			}
			if selftest && selftestFuncs != nil {
				hit := false
				for _, f := range selftestFuncs {
					if strings.Contains(c.Block.Key(), f) {
						hit = true
					}
				}
				if !hit {
					continue
				}
			}
			r := Verify(w, c)
			// clauses restricted to other properties ("ensures @Cxx ...") are not part of this check
			var keep []*Obligation
			for _, o := range r.Obls {
				if o.CExpr != nil && len(o.CExpr.Dir.Only) > 0 {
					mine := false
					for _, p := range o.CExpr.Dir.Only {
						if p == prop {
							mine = true
						}
					}
					if !mine {
						continue
					}
				}
				keep = append(keep, o)
			}
			r.Obls = keep
			results = append(results, r)
		}
	}
	solverS := Discharge(results, timeout, seed, tier == "thorough", false)

	// ledger
	var led ledgerFile
	ledPath := filepath.Join(verifRoot, "ledger", prop+".json")
	if data, err := os.ReadFile(ledPath); err == nil {
		json.Unmarshal(data, &led)
	}
	seenBase := map[string]bool{}
	var obls []oblReport
	var funcs []funcReport
	total, discharged := 0, 0
	var covers, canaries []oblReport
	trusted := map[string]bool{}
	assumed := map[string]bool{}
	var samples []interface{}
	var unrolled []string
	if loadErr != "" {
		viols = append(viols, violation{reason: "load", detail: loadErr})
	}
	for _, r := range results {
		fr := funcReport{Name: r.Name, File: r.File, SrcSHA: r.SrcHash, Loops: r.Loops, Inlined: r.Inlined, Abstracted: r.Abstracted,
			Contract: fmt.Sprintf("%s:%d", r.Contract.Block.File, r.Contract.Block.Line)}
		for _, t := range r.Trusted {
			trusted[t] = true
		}
		for _, t := range r.Assumed {
			assumed[t] = true
		}
		for _, e := range r.Errs {
			reason := "left-subset"
			if strings.Contains(e, "missing:") {
				reason = "missing"
			} else if strings.Contains(e, "contract drift") {
				reason = "contract-drift"
			}
			viols = append(viols, violation{fn: r, reason: reason, detail: e})
		}
		reachableReturn := false
		hasCanary := false
		for _, o := range r.Obls {
			if o.CExpr != nil && len(o.CExpr.Dir.Only) > 0 {
				mine := false
				for _, p := range o.CExpr.Dir.Only {
					if p == prop {
						mine = true
					}
				}
				if !mine {
					continue // this clause belongs to another property's check
				}
			}
			rep := oblReport{Name: o.Name, Kind: o.Kind, Result: o.Result, Solver: o.Solver, Ms: o.Ms, Text: o.Text}
			if o.ExpectSat {
				if strings.Contains(o.Name, "/canary/") {
					hasCanary = true
					canaries = append(canaries, rep)
					if o.Result == "reachable" || o.Result == "cover-unknown" {
						reachableReturn = true
					}
				} else {
					covers = append(covers, rep)
					if o.Result == "unreachable" {
						viols = append(viols, violation{obl: o, fn: r, reason: "vacuous", detail: "cover obligation is unsatisfiable: " + o.Text})
					}
				}
				continue
			}
			total++
			fr.Obls++
			seenBase[baseName(o.Name)] = true
			obls = append(obls, rep)
			if o.Kind == "unwind" {
				unrolled = append(unrolled, o.Name)
			}
			switch o.Result {
			case "proved":
				discharged++
				if len(samples) < 3 && o.Solver != "syntactic" {
					q := r.Ctx.QueryOpt(o.Hyps, o.Goal, true, QRaw)
					if len(q) < 6000 {
						samples = append(samples, map[string]string{"obligation": o.Name, "text": o.Text, "smt2": q})
					}
				}
			case "refuted":
				viols = append(viols, violation{obl: o, fn: r, reason: "refuted"})
			default:
				viols = append(viols, violation{obl: o, fn: r, reason: "undischarged"})
			}
		}
		if hasCanary && !reachableReturn {
			viols = append(viols, violation{fn: r, reason: "vacuous", detail: "no return of " + r.Name + " is reachable under its preconditions"})
		}
		funcs = append(funcs, fr)
	}
	if loadErr == "" && total == 0 {
		viols = append(viols, violation{reason: "vacuous", detail: "no obligations were generated for " + prop})
	}
	for _, exp := range led.Obligations {
		if selftest && selftestFuncs != nil {
			break // only some functions were verified
		}
		if !seenBase[exp] && loadErr == "" {
			viols = append(viols, violation{reason: "missing", detail: "expected obligation is no longer generated: " + exp})
		}
	}
	if len(samples) == 0 && len(obls) > 0 {
		samples = append(samples, obls[0])
	}

	// known findings
	known := loadKnownFindings()
	var real []violation
	var knownLines []string
	var knownObls []string
	for _, v := range viols {
		matched := false
		if v.obl != nil {
			for _, k := range known {
				if k.kind == "known" && k.property == prop && k.obl == baseName(v.obl.Name) {
					matched = true
					line := fmt.Sprintf("KNOWN-FINDING: property=%s %s %s", prop, k.obl, k.text)
					dup := false
					for _, l := range knownLines {
						if l == line {
							dup = true
						}
					}
					if !dup {
						knownLines = append(knownLines, line)
					}
				}
			}
		}
		if !matched {
			real = append(real, v)
		} else {
			// an obligation listed as a known finding is reported on its own line and is not
			// counted among the obligations this run claims to have discharged
			total--
			knownObls = append(knownObls, v.obl.Name)
		}
	}
	if selftest {
		// report what failed, in a file, for the self test driver
		var names []string
		for _, v := range real {
			if v.obl != nil {
				names = append(names, v.reason+" "+baseName(v.obl.Name))
			} else {
				names = append(names, v.reason+" "+v.detail)
			}
		}
		os.WriteFile(filepath.Join(selftestDir, "failed.txt"), []byte(strings.Join(names, "\n")+"\n"), 0o644)
		if len(real) > 0 {
			return 1
		}
		return 0
	}
	for _, l := range knownLines {
		fmt.Println(l)
	}
	// replay + report
	outRoot := verifRoot
	if altOut != "" {
		outRoot = altOut
	}
	os.MkdirAll(filepath.Join(outRoot, "replays"), 0o755)
	exit := 0
	var violLines []string
	for i, v := range real {
		path := filepath.Join(outRoot, "replays", fmt.Sprintf("%s-%d.json", prop, i+1))
		confirmed := writeReplay(w, prop, v, path)
		line := fmt.Sprintf("VIOLATION property=%s replay=%s", prop, path)
		if !confirmed {
			line += " no-failing-input-found"
		}
		name := v.detail
		if v.obl != nil {
			name = v.obl.Name + " (" + v.obl.Text + ")"
		}
		fmt.Printf("failed obligation [%s]: %s\n", v.reason, name)
		fmt.Println(line)
		violLines = append(violLines, line)
		exit = 1
	}

	// evidence
	ev := map[string]interface{}{
		"property_id": prop,
		"tier":        tier,
		"seed":        seed,
		"level":       "proof",
		"wall_s":      time.Since(t0).Seconds(),
		"violations":  len(real),
	}
	var tb []string
	tb = append(tb, "pvc VC generator and SMT encoding (/verif/engine)", "z3 4.8.12, z3 5.1.0, cvc5 1.0 (an unsat from one solver is accepted)",
		"Go 1.25.3 type checker and GOARCH=amd64 sizes (int = 64 bit, little endian)")
	for t := range trusted {
		tb = append(tb, "assumed contract: "+t)
	}
	sort.Strings(tb[3:])
	var as []string
	as = append(as,
		"machine integers are modelled exactly as bit-vectors; nothing is treated as a mathematical integer",
		"slice headers satisfy 0 <= len <= cap <= 2^47 and offsets are below 2^47 (amd64 user address space); make() panics above 2^48 bytes",
		"memory is a set of disjoint regions (one per allocation); regions allocated during a call differ from all pre-existing ones; distinct slice parameters lie in distinct regions unless the contract says mayalias",
		"typed memory: distinct element types never alias (no unsafe reinterpretation other than the modelled byte reads)",
		"no interleaving semantics: functions are verified sequentially; lock discipline is taken from the code's comments",
		"termination is not proved unless a decreases clause is listed")
	for a := range assumed {
		as = append(as, a)
	}
	sort.Strings(as[6:])
	var notDecided string
	if nd, ok := notDecidedText[prop]; ok {
		notDecided = nd
	}
	cov := map[string]interface{}{
		"obligations":              total,
		"discharged":               discharged,
		"checker_cmd":              fmt.Sprintf("/verif/bin/pvc check -tier %s %s", tier, prop),
		"trusted_base":             tb,
		"samples":                  samples,
		"functions_under_contract": funcs,
		"obligation_results":       obls,
		"covers":                   covers,
		"canaries":                 canaries,
		"solver_time_s":            solverS,
		"load_time_s":              loadS,
		"back_ends":                []string{"z3 4.8.12", "z3 5.1.0 (z3-new)", "cvc5 1.0"},
		"unrolled_loops_with_unwinding_assertion": unrolled,
		"bounded":                  []string{},
		"known_findings_reported":  knownLines,
		"known_finding_obligations_not_counted": knownObls,
		"violation_lines":          violLines,
		"not_decided":              notDecided,
		"packages":                 dirs,
		"explanation":              "every obligation is a separate SMT query (path condition and assumptions imply goal) generated from the type-checked AST of /repo's working tree; discharged counts queries answered unsat",
	}
	if tier == "thorough" && exit == 0 {
		// must-fail changes of this property, applied in memory: the check has to report each
		cov["must_fail_selftest"] = mutantsFor(prop)
		ev["wall_s"] = time.Since(t0).Seconds()
	}
	ev["coverage"] = cov
	ev["assumptions"] = as
	os.MkdirAll(filepath.Join(outRoot, "evidence"), 0o755)
	data, _ := json.MarshalIndent(ev, "", " ")
	os.WriteFile(filepath.Join(outRoot, "evidence", prop+".json"), data, 0o644)

	fmt.Printf("%s: %d obligations, %d discharged, %d functions, %d violations, load %.1fs, solvers %.1fs cpu, wall %.1fs\n",
		prop, total, discharged, len(funcs), len(real), loadS, solverS, time.Since(t0).Seconds())
	if update {
		if exit != 0 {
			fmt.Println("ledger not updated: the run has violations")
		} else {
			var names []string
			for n := range seenBase {
				names = append(names, n)
			}
			sort.Strings(names)
			var fnames []string
			for _, f := range funcs {
				fnames = append(fnames, f.Name)
			}
			led = ledgerFile{Property: prop, Obligations: names, Functions: fnames}
			os.MkdirAll(filepath.Join(verifRoot, "ledger"), 0o755)
			d, _ := json.MarshalIndent(led, "", " ")
			os.WriteFile(ledPath, d, 0o644)
			fmt.Println("ledger updated:", ledPath)
		}
	}
	return exit
}

// notDecidedText: the part of each property statement the kernel does not carry.
var notDecidedText = map[string]string{}
