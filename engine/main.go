package main

import (
	"sort"
	"flag"
	"fmt"
	"os"
	"path/filepath"
	"strings"
	"time"
)

func main() {
	if len(os.Args) < 2 {
		fmt.Fprintln(os.Stderr, "usage: pvc <dev|check|replay|selftest> ...")
		os.Exit(2)
	}
	for _, e := range goEnv() {
		if i := strings.IndexByte(e, '='); i > 0 {
			switch e[:i] {
			case "PATH", "GOFLAGS", "GOPROXY", "GOTOOLCHAIN":
				os.Setenv(e[:i], e[i+1:])
			}
		}
	}
	os.Unsetenv("GOSUMDB")
	switch os.Args[1] {
	case "dev":
		devMain(os.Args[2:])
	case "check":
		os.Exit(checkMain(os.Args[2:]))
	case "replay":
		os.Exit(replayMain(os.Args[2:]))
	case "selftest":
		os.Exit(selftestMain(os.Args[2:]))
	default:
		fmt.Fprintln(os.Stderr, "unknown command", os.Args[1])
		os.Exit(2)
	}
}

// dev: verify the contracts of the given package directories and print everything.
func devMain(args []string) {
	fs := flag.NewFlagSet("dev", flag.ExitOnError)
	only := fs.String("func", "", "only blocks whose key contains this text")
	timeout := fs.Int("timeout", 20000, "per-obligation timeout (ms)")
	dump := fs.String("dump", "", "obligation name substring whose query is printed")
	verbose := fs.Bool("v", false, "print proved obligations too")
	doReplay := fs.Bool("replay", false, "replay refuted obligations on the real code")
	lite := fs.Bool("lite", false, "with -dump: print the instantiated quantifier-free query")
	cand := fs.Bool("cand", false, "print the candidate model of the quantifier-free weakening")
	fs.Parse(args)
	t0 := time.Now()
	w, err := LoadWorld(fs.Args(), nil)
	if err != nil {
		fmt.Println("load error:", err)
		os.Exit(2)
	}
	fmt.Printf("loaded in %.1fs\n", time.Since(t0).Seconds())
	var results []*FuncResult
	for _, c := range w.All {
		if *only != "" && !strings.Contains(c.Block.Key(), *only) {
			continue
		}
		wanted := fs.NArg() == 0
		for _, a := range fs.Args() {
			if filepath.Clean(filepath.Join(repoRoot, a)) == c.CF.Dir {
				wanted = true
			}
		}
		if !wanted {
			continue
		}
		t1 := time.Now()
		r := Verify(w, c)
		fmt.Printf("== %s: %d obligations, %d errors (%.2fs)\n", r.Name, len(r.Obls), len(r.Errs), time.Since(t1).Seconds())
		for _, e := range r.Errs {
			fmt.Println("   ERROR:", e)
		}
		results = append(results, r)
	}
	secs := Discharge(results, *timeout, 0, false, true)
	for _, r := range results {
		for _, o := range r.Obls {
			ok := o.Result == "proved" || o.Result == "reachable"
			if !ok || *verbose {
				fmt.Printf("  %-10s %-60s %s %dms  [%s]\n", o.Result, o.Name, o.Solver, o.Ms, shortText(o.Text))
			}
			if o.Result == "refuted" || (o.Result == "unknown" && o.CandQuery != "") {
				if o.Result == "refuted" {
					fmt.Println("     model:", o.Model)
				} else {
					fmt.Println("     candidate counterexample from the quantifier-free weakening")
					if *cand {
						dir, _ := os.MkdirTemp("", "pvc-cand-")
						m, _ := getModel(o.CandQuery, r.Ctx.ModelSymbols(o.CandQuery), dir, 1, o.CandSolver)
						os.RemoveAll(dir)
						var ks []string
						for k := range m {
							ks = append(ks, k)
						}
						sort.Strings(ks)
						for _, k := range ks {
							fmt.Printf("       %s = %s\n", k, m[k])
						}
					}
				}
				if *doReplay {
					rr := tryReplay(w, violation{obl: o, fn: r, reason: "refuted"})
					if rr != nil {
						fmt.Println("     replay:", rr.Outcome, rr.Why)
						if *verbose || rr.Outcome != "confirmed" {
							fmt.Println(rr.TestSrc)
						}
						fmt.Println(rr.Output)
					}
				}
			}
			if *dump != "" && strings.Contains(o.Name, *dump) {
				if *lite {
					fmt.Println(r.Ctx.QueryOpt(o.Hyps, o.Goal, true, QLite))
				} else {
					fmt.Println(o.Query)
				}
				fmt.Println(o.Raw)
			}
		}
		if *verbose {
			fmt.Println("   abstracted:", r.Abstracted)
			fmt.Println("   inlined:", r.Inlined)
			fmt.Println("   assumed:", r.Assumed)
		}
	}
	fmt.Printf("solver time %.1fs, wall %.1fs\n", secs, time.Since(t0).Seconds())
}

