package main

import (
	"fmt"
	"go/ast"
	"go/constant"
	"go/token"
	"go/types"
	"hash/fnv"
	"strings"
)

type Loc interface{}

type varLoc struct {
	obj  types.Object
	path []int
}

type heapLoc struct {
	prefix string
	rgn    Term
	off    Term
	prov   string // non-empty: raw byte memory accessed at another type
}

type valLoc struct {
	v Value
}

func isSigned(t types.Type) bool {
	if b, ok := t.Underlying().(*types.Basic); ok {
		return b.Info()&types.IsInteger != 0 && b.Info()&types.IsUnsigned == 0
	}
	return false
}

func isInteger(t types.Type) bool {
	if b, ok := t.Underlying().(*types.Basic); ok {
		return b.Info()&types.IsInteger != 0
	}
	return false
}

func (x *Exec) width(t types.Type) int {
	return int(x.sizes.Sizeof(t.Underlying())) * 8
}

func (x *Exec) constValue(s *State, cv constant.Value, t types.Type) Value {
	switch cv.Kind() {
	case constant.Bool:
		return &Scalar{T: BoolLit(constant.BoolVal(cv))}
	case constant.Int:
		if b, ok := t.Underlying().(*types.Basic); ok && b.Info()&types.IsUntyped != 0 {
			t = types.Typ[types.Int]
		}
		if _, ok := t.Underlying().(*types.Interface); ok {
			t = types.Typ[types.Int]
		}
		if !isInteger(t) {
			if b, ok := t.Underlying().(*types.Basic); ok && b.Info()&types.IsFloat != 0 {
				return &Scalar{T: x.ctx.Fresh("float", "Float")}
			}
			unsup("integer constant of type %s", t)
		}
		w := x.width(t)
		if u, ok := constant.Uint64Val(cv); ok {
			return &Scalar{T: BVLit(u, w)}
		}
		if i, ok := constant.Int64Val(cv); ok {
			return &Scalar{T: BVLit(uint64(i), w)}
		}
		unsup("constant out of range: %s", cv)
	case constant.String:
		return &Scalar{T: x.strConst(constant.StringVal(cv))}
	case constant.Float:
		x.ctx.sorts["Float"] = true
		return &Scalar{T: x.ctx.Fresh("float", "Float")}
	}
	unsup("constant kind %v", cv.Kind())
	return nil
}

func (x *Exec) strConst(v string) Term {
	h := fnv.New64a()
	h.Write([]byte(v))
	name := fmt.Sprintf("str$%x", h.Sum64())
	if v == "" {
		name = "str$empty"
	}
	t := x.ctx.Const(name, SStr)
	x.ctx.AddAxiom("strlen:"+name, []string{name, "strlen"}, Eq(x.strlen(t), I64(int64(len(v)))).S)
	key := "strconst:" + name
	if !x.cbAxioms[key] {
		x.cbAxioms[key] = true
		for k := range x.cbAxioms {
			if len(k) > 9 && k[:9] == "strconst:" && k != key {
				o := k[9:]
				a, b := o, name
				if a > b {
					a, b = b, a
				}
				x.ctx.AddAxiom("distinct:"+a+":"+b, []string{a, b}, fmt.Sprintf("(not (= %s %s))", a, b))
			}
		}
	}
	return t
}

// cond evaluates a boolean expression to a term.
func (x *Exec) cond(s *State, fr *Frame, e ast.Expr) Term {
	v := x.expr(s, fr, e)
	sc, ok := v.(*Scalar)
	if !ok || sc.T.Sort != SBool {
		unsup("condition is not boolean: %s", exprText(x.w.Fset, e))
	}
	if x.spec == 0 && (strings.Contains(sc.T.S, "(forall ") || strings.Contains(sc.T.S, "(exists ")) {
		// a quantified formula used as a branch condition: name it, so that it never
		// ends up inside the ite condition of a merged value
		c := x.ctx.Fresh("qcond", SBool)
		s.facts = append(s.facts, Eq(c, sc.T))
		return c
	}
	n := x.ctx.Share(sc.T)
	if p, ok := x.parts[sc.T.S]; ok && n.S != sc.T.S {
		x.parts[n.S] = p
	}
	return n
}

// branchCond evaluates the condition of a branching statement. States are merged
// on their path decisions, so a quantified condition (which is kept as a fact,
// not as a decision) must be named also while a contract expression is being
// evaluated (inlined bodies); otherwise both branches would merge under "true".
func (x *Exec) branchCond(s *State, fr *Frame, e ast.Expr) Term {
	c := x.cond(s, fr, e)
	if strings.Contains(c.S, "(forall ") || strings.Contains(c.S, "(exists ") {
		if len(x.bound) > 0 {
			unsup("branch on a quantified condition under a bound variable: %s", exprText(x.w.Fset, e))
		}
		q := x.ctx.Fresh("qcond", SBool)
		s.facts = append(s.facts, Eq(q, c))
		return q
	}
	return c
}

// goalParts records the logical structure of a boolean term so that proof goals
// can be split into one obligation per conjunct / direction.
type goalParts struct {
	kind string // and imp iff
	a, b Term
}

func (x *Exec) recordParts(t Term, kind string, a, b Term) Term {
	if !t.IsC && t.S != a.S && t.S != b.S {
		x.parts[t.S] = goalParts{kind, a, b}
	}
	return t
}

type subGoal struct {
	hyps   []Term
	goal   Term
	suffix string
}

func (x *Exec) splitGoal(g Term, hyps []Term, suffix string, depth int) []subGoal {
	p, ok := x.parts[g.S]
	if !ok || depth > 6 {
		return []subGoal{{hyps, g, suffix}}
	}
	switch p.kind {
	case "and":
		out := x.splitGoal(p.a, hyps, suffix+".1", depth+1)
		// the second conjunct may assume the first
		h2 := append(append([]Term(nil), hyps...), p.a)
		return append(out, x.splitGoal(p.b, h2, suffix+".2", depth+1)...)
	case "imp":
		h2 := append(append([]Term(nil), hyps...), p.a)
		return x.splitGoal(p.b, h2, suffix, depth+1)
	case "iff":
		ha := append(append([]Term(nil), hyps...), p.a)
		hb := append(append([]Term(nil), hyps...), p.b)
		out := x.splitGoal(p.b, ha, suffix+".fwd", depth+1)
		return append(out, x.splitGoal(p.a, hb, suffix+".bwd", depth+1)...)
	}
	return []subGoal{{hyps, g, suffix}}
}

// specCond evaluates a contract expression (no obligations are generated).
func (x *Exec) specCond(s *State, fr *Frame, e ast.Expr) Term {
	v := x.specExpr(s, fr, e)
	sc, ok := v.(*Scalar)
	if !ok || sc.T.Sort != SBool {
		unsup("contract expression is not boolean: %s", exprText(x.w.Fset, e))
	}
	return sc.T
}

func (x *Exec) specExpr(s *State, fr *Frame, e ast.Expr) Value {
	x.spec++
	x.noObl++
	defer func() { x.spec--; x.noObl-- }()
	// spec evaluation must not disturb the state
	t := s.fork()
	np, nf := len(t.pc), len(t.facts)
	v := x.expr(t, fr, e)
	x.adopt(s, t, np, nf, nil, nil)
	return v
}

// adopt carries the hypotheses learned while a contract expression was evaluated
// in the forked state t (well-formedness of values loaded from memory, the
// postconditions of pure calls: facts that hold of the terms they mention, not
// decisions of the program) back into s. np and nf are the lengths of t.pc and
// t.facts before the evaluation. A guard makes them conditional (right operand of
// && or ||); binders closes them over the bound variables of a quantifier.
func (x *Exec) adopt(s, t *State, np, nf int, guard *Term, binders []Term) {
	var fs []Term
	if np <= len(t.pc) {
		fs = append(fs, t.pc[np:]...)
	}
	if nf <= len(t.facts) {
		fs = append(fs, t.facts[nf:]...)
	}
	for _, f := range fs {
		if guard != nil {
			f = Implies(*guard, f)
		}
		var bs []string
		for _, b := range binders {
			if mentionsSym(f.S, b.S) {
				bs = append(bs, fmt.Sprintf("(%s %s)", b.S, b.Sort))
			}
		}
		if len(bs) > 0 {
			f = Term{S: fmt.Sprintf("(forall (%s) %s)", strings.Join(bs, " "), f.S), Sort: SBool}
		}
		s.assume(f)
	}
	for k := range t.embSeen {
		s.embSeen[k] = true
	}
}

// mentionsSym reports whether the SMT text s mentions the symbol sym as a token.
func mentionsSym(s, sym string) bool {
	for i := 0; ; {
		j := strings.Index(s[i:], sym)
		if j < 0 {
			return false
		}
		e := i + j + len(sym)
		if e >= len(s) || !(s[e] >= '0' && s[e] <= '9' || s[e] >= 'a' && s[e] <= 'z' || s[e] >= 'A' && s[e] <= 'Z' || s[e] == '_' || s[e] == '!' || s[e] == '?' || s[e] == '$' || s[e] == '.') {
			return true
		}
		i = e
	}
}

func (x *Exec) exprMulti(s *State, fr *Frame, e ast.Expr, n int) Value {
	e = ast.Unparen(e)
	switch v := e.(type) {
	case *ast.CallExpr:
		return x.call(s, fr, v)
	case *ast.TypeAssertExpr:
		// v, ok := x.(T): the dynamic type of an interface value is not tracked, so both
		// results are unknown (a well-formed T and a boolean); sound for either outcome
		if v.Type != nil {
			x.expr(s, fr, v.X)
			t := fr.info.TypeOf(v.Type)
			val := x.fresh(s, t, "assert")
			x.assumeWF(s, t, val)
			x.note("abstracted", "type assertion result is unknown: "+exprText(x.w.Fset, v))
			return &TupleV{V: []Value{val, &Scalar{T: x.ctx.Fresh("assertok", SBool)}}}
		}
		unsup("type switch guard")
	case *ast.IndexExpr:
		// map lookup with comma-ok
		if _, ok := fr.info.TypeOf(v.X).Underlying().(*types.Map); ok {
			mt := fr.info.TypeOf(v.X).Underlying().(*types.Map)
			x.expr(s, fr, v.X)
			x.expr(s, fr, v.Index)
			val := x.fresh(s, mt.Elem(), "mapval")
			x.assumeWF(s, mt.Elem(), val)
			return &TupleV{V: []Value{val, &Scalar{T: x.ctx.Fresh("mapok", SBool)}}}
		}
	case *ast.UnaryExpr:
		if v.Op == token.ARROW {
			unsup("channel receive")
		}
	}
	unsup("multi-value expression %T", e)
	return nil
}

func (x *Exec) expr(s *State, fr *Frame, e ast.Expr) Value {
	if tv, ok := fr.info.Types[e]; ok {
		if tv.Value != nil {
			return x.constValue(s, tv.Value, tv.Type)
		}
		if tv.IsNil() {
			return x.zero(s, tv.Type)
		}
	}
	switch n := e.(type) {
	case *ast.ParenExpr:
		return x.expr(s, fr, n.X)
	case *ast.Ident:
		obj := fr.info.Uses[n]
		if obj == nil {
			obj = fr.info.Defs[n]
		}
		switch o := obj.(type) {
		case *types.Var:
			return x.readVar(s, o)
		case *types.Func:
			return &FuncV{Fn: o, Typ: o.Type()}
		case *types.Nil:
			return x.zero(s, fr.info.TypeOf(e))
		case *types.Const:
			return x.constValue(s, o.Val(), o.Type())
		}
		unsup("identifier %s", n.Name)
	case *ast.BasicLit:
		unsup("literal without constant value")
	case *ast.FuncLit:
		id, ok := x.litIDs[n]
		if !ok {
			id = len(x.litIDs) + 1
			x.litIDs[n] = id
		}
		return &FuncV{Lit: &litInfo{lit: n, id: id, info: fr.info, pkg: fr.pkg}, Typ: fr.info.TypeOf(n)}
	case *ast.CompositeLit:
		return x.compositeLit(s, fr, n)
	case *ast.SelectorExpr:
		// qualified identifier
		if id, ok := n.X.(*ast.Ident); ok {
			if _, isPkg := fr.info.Uses[id].(*types.PkgName); isPkg {
				switch o := fr.info.Uses[n.Sel].(type) {
				case *types.Var:
					return x.readVar(s, o)
				case *types.Func:
					return &FuncV{Fn: o, Typ: o.Type()}
				case *types.Const:
					return x.constValue(s, o.Val(), o.Type())
				}
				unsup("qualified identifier %s.%s", id.Name, n.Sel.Name)
			}
		}
		si := fr.info.Selections[n]
		if si == nil {
			unsup("selector without selection: %s", exprText(x.w.Fset, n))
		}
		if si.Kind() == types.MethodVal {
			fn := si.Obj().(*types.Func)
			recv := x.expr(s, fr, n.X)
			return &FuncV{Fn: fn, Recv: recv, Typ: fr.info.TypeOf(n), Name: exprText(x.w.Fset, n.X)}
		}
		if si.Kind() == types.MethodExpr {
			unsup("method expression")
		}
		loc := x.lvalue(s, fr, n)
		return x.readLoc(s, loc, fr.info.TypeOf(n))
	case *ast.IndexExpr:
		xt := fr.info.TypeOf(n.X)
		if tv, ok := fr.info.Types[n.X]; ok && !tv.IsValue() {
			unsup("generic instantiation as value")
		}
		if _, ok := xt.(*types.Signature); ok {
			return x.expr(s, fr, n.X) // generic function instantiation
		}
		switch u := xt.Underlying().(type) {
		case *types.Map:
			x.expr(s, fr, n.X)
			x.expr(s, fr, n.Index)
			v := x.fresh(s, u.Elem(), "mapval")
			x.assumeWF(s, u.Elem(), v)
			return v
		case *types.Basic:
			// string indexing
			sv := x.expr(s, fr, n.X).(*Scalar)
			iv := x.expr(s, fr, n.Index).(*Scalar)
			i := Resize(iv.T, 64, isSigned(fr.info.TypeOf(n.Index)))
			x.boundsCheck(s, fr, i, x.strlen(sv.T), n.Pos(), "index", exprText(x.w.Fset, n))
			return &Scalar{T: x.ctx.UF("str$at", BV(8), sv.T, i)}
		}
		loc := x.lvalue(s, fr, n)
		return x.readLoc(s, loc, fr.info.TypeOf(n))
	case *ast.SliceExpr:
		return x.sliceExpr(s, fr, n)
	case *ast.StarExpr:
		loc := x.lvalue(s, fr, n)
		return x.readLoc(s, loc, fr.info.TypeOf(n))
	case *ast.UnaryExpr:
		return x.unary(s, fr, n)
	case *ast.BinaryExpr:
		return x.binary(s, fr, n)
	case *ast.CallExpr:
		return x.call(s, fr, n)
	case *ast.TypeAssertExpr:
		x.expr(s, fr, n.X)
		t := fr.info.TypeOf(n)
		x.note("abstracted", "type assertion result is unknown: "+exprText(x.w.Fset, n))
		if x.top.NoPanic && x.spec == 0 {
			unsup("type assertion may panic")
		}
		v := x.fresh(s, t, "assert")
		x.assumeWF(s, t, v)
		return v
	case *ast.KeyValueExpr:
		unsup("key-value outside composite literal")
	}
	unsup("expression %T", e)
	return nil
}

func (x *Exec) compositeLit(s *State, fr *Frame, n *ast.CompositeLit) Value {
	t := fr.info.TypeOf(n)
	switch u := t.Underlying().(type) {
	case *types.Struct:
		sv := x.zero(s, t).(*StructV)
		out := &StructV{F: append([]Value(nil), sv.F...)}
		for i, el := range n.Elts {
			if kv, ok := el.(*ast.KeyValueExpr); ok {
				name := kv.Key.(*ast.Ident).Name
				for j := 0; j < u.NumFields(); j++ {
					if u.Field(j).Name() == name {
						v := x.expr(s, fr, kv.Value)
						out.F[j] = x.convertTo(s, fr, v, fr.info.TypeOf(kv.Value), u.Field(j).Type())
					}
				}
			} else {
				v := x.expr(s, fr, el)
				out.F[i] = x.convertTo(s, fr, v, fr.info.TypeOf(el), u.Field(i).Type())
			}
		}
		return out
	case *types.Array:
		a := x.allocArray(s, u, u.Len() <= 16, "lit")
		if u.Len() > 16 {
			x.fillZero(s, u.Elem(), a.Rgn, a.Off, I64(u.Len()))
		}
		x.litElems(s, fr, n, u.Elem(), a.Rgn)
		return a
	case *types.Slice:
		// length = max index + 1
		var cnt int64
		idx := int64(0)
		for _, el := range n.Elts {
			if kv, ok := el.(*ast.KeyValueExpr); ok {
				if tv, ok := fr.info.Types[kv.Key]; ok && tv.Value != nil {
					idx, _ = constant.Int64Val(tv.Value)
				}
			}
			idx++
			if idx > cnt {
				cnt = idx
			}
		}
		if x.opaque && isByteSlice(t) {
			return &Scalar{T: x.ctx.Fresh("byteslit", SBytes)}
		}
		rgn := x.newRegion(s, memName(u.Elem()), "alloc")
		x.fillZero(s, u.Elem(), rgn, I64(0), I64(cnt))
		x.litElems(s, fr, n, u.Elem(), rgn)
		return &SliceV{Rgn: rgn, Off: I64(0), Len: I64(cnt), Cap: I64(cnt)}
	case *types.Map:
		return &Scalar{T: x.ctx.Fresh("maplit", SBV64)}
	}
	unsup("composite literal of type %s", t)
	return nil
}

func (x *Exec) litElems(s *State, fr *Frame, n *ast.CompositeLit, et types.Type, rgn Term) {
	idx := int64(0)
	for _, el := range n.Elts {
		val := el
		if kv, ok := el.(*ast.KeyValueExpr); ok {
			if tv, ok := fr.info.Types[kv.Key]; ok && tv.Value != nil {
				idx, _ = constant.Int64Val(tv.Value)
			} else {
				unsup("non-constant index in composite literal")
			}
			val = kv.Value
		}
		var v Value
		if cl, ok := val.(*ast.CompositeLit); ok && cl.Type == nil {
			v = x.compositeLit(s, fr, cl)
		} else {
			v = x.expr(s, fr, val)
			v = x.convertTo(s, fr, v, fr.info.TypeOf(val), et)
		}
		x.store(s, memName(et), et, rgn, I64(idx), v)
		idx++
	}
}

func (x *Exec) boundsCheck(s *State, fr *Frame, i, n Term, pos token.Pos, kind, text string) {
	ok := Ult(i, n)
	if kind == "slice" {
		ok = Ule(i, n)
	}
	if x.spec > 0 {
		return
	}
	if x.top.NoPanic {
		x.oblige(s, kind, fmt.Sprintf("%s@%s", kind, shortText(text)), ok, pos, text)
	}
	s.assume(ok)
}

func (x *Exec) nilCheck(s *State, fr *Frame, p Term, pos token.Pos, text string) {
	if x.spec > 0 {
		return
	}
	ok := Ne(p, I64(0))
	if x.top.NoPanic {
		x.oblige(s, "nil", fmt.Sprintf("nil@%s", shortText(text)), ok, pos, text)
	}
	s.assume(ok)
}

func (x *Exec) lvalue(s *State, fr *Frame, e ast.Expr) Loc {
	switch n := e.(type) {
	case *ast.ParenExpr:
		return x.lvalue(s, fr, n.X)
	case *ast.Ident:
		obj := fr.info.Uses[n]
		if obj == nil {
			obj = fr.info.Defs[n]
		}
		if obj == nil {
			unsup("lvalue identifier %s", n.Name)
		}
		if _, ok := x.bound[obj]; ok {
			return &valLoc{v: x.bound[obj]}
		}
		if v, ok := s.vars[obj]; ok {
			if hv, ok := v.(*heapVar); ok {
				return &heapLoc{prefix: memName(obj.Type()), rgn: hv.rgn, off: I64(0)}
			}
		} else {
			// global
			return &valLoc{v: x.global(s, obj)}
		}
		return &varLoc{obj: obj}
	case *ast.SelectorExpr:
		if id, ok := n.X.(*ast.Ident); ok {
			if _, isPkg := fr.info.Uses[id].(*types.PkgName); isPkg {
				obj := fr.info.Uses[n.Sel]
				if v, ok := s.vars[obj]; ok {
					if hv, ok := v.(*heapVar); ok {
						return &heapLoc{prefix: memName(obj.Type()), rgn: hv.rgn, off: I64(0)}
					}
					return &varLoc{obj: obj}
				}
				if x.spec == 0 {
					// writes to globals of other packages are tracked as variables
					x.global(s, obj)
					s.vars[obj] = x.globals[obj]
					return &varLoc{obj: obj}
				}
				return &valLoc{v: x.global(s, obj)}
			}
		}
		si := fr.info.Selections[n]
		if si == nil || si.Kind() != types.FieldVal {
			unsup("lvalue selector %s", exprText(x.w.Fset, n))
		}
		t := fr.info.TypeOf(n.X)
		var loc Loc
		if _, isPtr := t.Underlying().(*types.Pointer); isPtr {
			loc = &valLoc{v: x.expr(s, fr, n.X)}
		} else if x.addressable(fr, n.X) {
			loc = x.lvalue(s, fr, n.X)
		} else {
			loc = &valLoc{v: x.expr(s, fr, n.X)}
		}
		for _, i := range si.Index() {
			if pt, ok := t.Underlying().(*types.Pointer); ok {
				pv := x.readLoc(s, loc, t).(*PtrV)
				x.nilCheck(s, fr, pv.Rgn, n.Pos(), exprText(x.w.Fset, n))
				t = pt.Elem()
				loc = x.ptrLoc(pv, t)
			}
			st := t.Underlying().(*types.Struct)
			f := st.Field(i)
			switch l := loc.(type) {
			case *varLoc:
				loc = &varLoc{obj: l.obj, path: append(append([]int(nil), l.path...), i)}
			case *heapLoc:
				loc = &heapLoc{prefix: l.prefix + "." + f.Name(), rgn: l.rgn, off: l.off}
			case *valLoc:
				sv, ok := l.v.(*StructV)
				if !ok {
					unsup("field of non-struct value")
				}
				loc = &valLoc{v: sv.F[i]}
			}
			t = f.Type()
		}
		return loc
	case *ast.IndexExpr:
		xt := fr.info.TypeOf(n.X)
		iv, ok := x.expr(s, fr, n.Index).(*Scalar)
		if !ok {
			unsup("index is not scalar")
		}
		it := fr.info.TypeOf(n.Index)
		i := Resize(iv.T, 64, isSigned(it))
		if b, ok := it.Underlying().(*types.Basic); ok && b.Info()&types.IsUntyped != 0 {
			i = Resize(iv.T, 64, true)
		}
		switch u := xt.Underlying().(type) {
		case *types.Slice:
			sv, ok := x.expr(s, fr, n.X).(*SliceV)
			if !ok {
				unsup("indexing an opaque slice")
			}
			x.boundsCheck(s, fr, i, sv.Len, n.Pos(), "index", exprText(x.w.Fset, n))
			return &heapLoc{prefix: memName(u.Elem()), rgn: sv.Rgn, off: x.ctx.Share(Add64(sv.Off, i))}
		case *types.Array:
			av, ok := x.expr(s, fr, n.X).(*ArrayRef)
			if !ok {
				unsup("indexing non-array value")
			}
			x.boundsCheck(s, fr, i, I64(av.N), n.Pos(), "index", exprText(x.w.Fset, n))
			return &heapLoc{prefix: memName(u.Elem()), rgn: av.Rgn, off: x.ctx.Share(Add64(av.Off, i))}
		case *types.Pointer:
			at, ok := u.Elem().Underlying().(*types.Array)
			if !ok {
				unsup("index of pointer to %s", u.Elem())
			}
			pv := x.expr(s, fr, n.X).(*PtrV)
			x.nilCheck(s, fr, pv.Rgn, n.Pos(), exprText(x.w.Fset, n))
			x.boundsCheck(s, fr, i, I64(at.Len()), n.Pos(), "index", exprText(x.w.Fset, n))
			return &heapLoc{prefix: memName(at.Elem()), rgn: pv.Rgn, off: x.ctx.Share(Add64(pv.Off, i))}
		case *types.Map:
			unsup("map element as lvalue")
		}
		unsup("index of %s", xt)
	case *ast.StarExpr:
		pt, ok := fr.info.TypeOf(n.X).Underlying().(*types.Pointer)
		if !ok {
			unsup("deref of non-pointer")
		}
		pv, ok := x.expr(s, fr, n.X).(*PtrV)
		if !ok {
			unsup("deref of non-pointer value")
		}
		x.nilCheck(s, fr, pv.Rgn, n.Pos(), exprText(x.w.Fset, n))
		return x.ptrLoc(pv, pt.Elem())
	case *ast.CompositeLit, *ast.CallExpr:
		return &valLoc{v: x.expr(s, fr, e)}
	}
	unsup("lvalue %T", e)
	return nil
}

// ptrLoc is the location a pointer value designates when dereferenced at type elem.
func (x *Exec) ptrLoc(pv *PtrV, elem types.Type) *heapLoc {
	def := memName(elem)
	if pv.Prov == "" || pv.Prov == def {
		return &heapLoc{prefix: def, rgn: pv.Rgn, off: pv.Off}
	}
	if pv.Prov == "uint8" && isInteger(elem) {
		// unsafe cast of a byte pointer
		return &heapLoc{prefix: "uint8", rgn: pv.Rgn, off: pv.Off, prov: "uint8"}
	}
	// pointer to a field embedded in a larger heap object: the field lives in the
	// memories of the enclosing type
	return &heapLoc{prefix: pv.Prov, rgn: pv.Rgn, off: pv.Off}
}

func (x *Exec) addressable(fr *Frame, e ast.Expr) bool {
	switch n := e.(type) {
	case *ast.Ident:
		_, ok := fr.info.Uses[n].(*types.Var)
		return ok
	case *ast.ParenExpr:
		return x.addressable(fr, n.X)
	case *ast.SelectorExpr:
		si := fr.info.Selections[n]
		if si == nil {
			if id, ok := n.X.(*ast.Ident); ok {
				if _, isPkg := fr.info.Uses[id].(*types.PkgName); isPkg {
					_, isVar := fr.info.Uses[n.Sel].(*types.Var)
					return isVar
				}
			}
			return false
		}
		if si.Kind() != types.FieldVal {
			return false
		}
		if _, ok := fr.info.TypeOf(n.X).Underlying().(*types.Pointer); ok {
			return true
		}
		return x.addressable(fr, n.X)
	case *ast.IndexExpr:
		switch fr.info.TypeOf(n.X).Underlying().(type) {
		case *types.Slice, *types.Pointer:
			return true
		case *types.Array:
			return true // arrays are references in this model
		}
		return false
	case *ast.StarExpr:
		return true
	}
	return false
}

func (x *Exec) readLoc(s *State, loc Loc, t types.Type) Value {
	switch l := loc.(type) {
	case *valLoc:
		return l.v
	case *varLoc:
		v := x.readVar(s, l.obj)
		for _, i := range l.path {
			sv, ok := v.(*StructV)
			if !ok {
				unsup("field path through non-struct")
			}
			v = sv.F[i]
		}
		return v
	case *heapLoc:
		if l.prov != "" {
			// raw byte memory read at an integer type (little endian)
			if l.prov != "uint8" || !isInteger(t) {
				unsup("unsafe read of %s from %s memory", t, l.prov)
			}
			w := x.width(t) / 8
			mem := x.ctx.Share(x.inner(s, "uint8", BV(8), l.rgn))
			var parts Term
			for k := 0; k < w; k++ {
				b := Select(mem, Add64(l.off, I64(int64(k))))
				if k == 0 {
					parts = b
				} else {
					parts = Term{S: fmt.Sprintf("(concat %s %s)", b.S, parts.S), Sort: BV(8 * (k + 1))}
				}
			}
			return &Scalar{T: x.ctx.Share(parts)}
		}
		if at, ok := t.Underlying().(*types.Array); ok {
			return &ArrayRef{Rgn: x.embRgn(s, l.prefix, at, l.rgn, l.off), Off: I64(0), N: at.Len()}
		}
		return x.load(s, l.prefix, t, l.rgn, l.off)
	}
	unsup("readLoc %T", loc)
	return nil
}

func (x *Exec) writeLoc(s *State, fr *Frame, loc Loc, t types.Type, v Value) {
	switch l := loc.(type) {
	case *varLoc:
		if len(l.path) == 0 {
			x.setVar(s, fr, l.obj, x.copyValue(s, t, v))
			return
		}
		cur := x.readVar(s, l.obj)
		x.setVar(s, fr, l.obj, x.updatePath(cur, l.path, x.copyValue(s, t, v)))
	case *heapLoc:
		if l.prov != "" {
			unsup("unsafe write through cast pointer")
		}
		x.store(s, l.prefix, t, l.rgn, l.off, v)
	case *valLoc:
		unsup("assignment to non-addressable value")
	default:
		unsup("writeLoc %T", loc)
	}
}

func (x *Exec) updatePath(cur Value, path []int, v Value) Value {
	if len(path) == 0 {
		return v
	}
	sv, ok := cur.(*StructV)
	if !ok {
		unsup("update path through non-struct")
	}
	out := &StructV{F: append([]Value(nil), sv.F...)}
	out.F[path[0]] = x.updatePath(sv.F[path[0]], path[1:], v)
	return out
}

// copyValue implements value semantics for arrays (copied on assignment).
func (x *Exec) copyValue(s *State, t types.Type, v Value) Value {
	if t == nil {
		return v
	}
	switch u := t.Underlying().(type) {
	case *types.Array:
		a, ok := v.(*ArrayRef)
		if !ok {
			return v
		}
		n := x.allocArray(s, u, false, "copy")
		x.copyElems(s, u.Elem(), n.Rgn, n.Off, a.Rgn, a.Off, I64(u.Len()))
		return n
	case *types.Struct:
		sv, ok := v.(*StructV)
		if !ok || !hasArray(u) {
			return v
		}
		out := &StructV{F: make([]Value, len(sv.F))}
		for i := range sv.F {
			out.F[i] = x.copyValue(s, u.Field(i).Type(), sv.F[i])
		}
		return out
	}
	return v
}

func hasArray(u *types.Struct) bool {
	for i := 0; i < u.NumFields(); i++ {
		switch f := u.Field(i).Type().Underlying().(type) {
		case *types.Array:
			return true
		case *types.Struct:
			if hasArray(f) {
				return true
			}
		}
	}
	return false
}

func (x *Exec) sliceExpr(s *State, fr *Frame, n *ast.SliceExpr) Value {
	xt := fr.info.TypeOf(n.X)
	var rgn, ptr, ln, cp Term
	var et types.Type
	isStr := false
	switch u := xt.Underlying().(type) {
	case *types.Slice:
		v0 := x.expr(s, fr, n.X)
		if ov, isOpaque := v0.(*Scalar); isOpaque && ov.T.Sort == SBytes && !n.Slice3 {
			// opaque byte strings: a sub-slice is an uninterpreted function of the string
			// and the two indices; only its length is known
			ln := x.bytesLen(ov.T)
			oidx := func(e ast.Expr, def Term) Term {
				if e == nil {
					return def
				}
				v := x.expr(s, fr, e).(*Scalar)
				signed := isSigned(fr.info.TypeOf(e))
				if b, ok := fr.info.TypeOf(e).Underlying().(*types.Basic); ok && b.Info()&types.IsUntyped != 0 {
					signed = true
				}
				return x.ctx.Share(Resize(v.T, 64, signed))
			}
			lo := oidx(n.Low, I64(0))
			hi := oidx(n.High, ln)
			text := exprText(x.w.Fset, n)
			if n.High != nil {
				// a[:hi] may extend to the capacity, which opaque strings do not have: only
				// the cases hi <= len are modelled
				x.boundsCheck(s, fr, hi, ln, n.Pos(), "slice", text)
			}
			x.boundsCheck(s, fr, lo, hi, n.Pos(), "slice", text)
			r := x.ctx.UF("bytes$sub", SBytes, ov.T, lo, hi)
			s.assume(Eq(x.bytesLen(r), Sub64(hi, lo)))
			s.assume(Implies(Slt(I64(0), Sub64(hi, lo)), Not(x.bytesIsNil(r))))
			return &Scalar{T: r}
		}
		sv, ok := v0.(*SliceV)
		if !ok {
			unsup("slicing an opaque slice")
		}
		rgn, ptr, ln, cp, et = sv.Rgn, sv.Off, sv.Len, sv.Cap, u.Elem()
	case *types.Array:
		av, ok := x.expr(s, fr, n.X).(*ArrayRef)
		if !ok {
			unsup("slicing non-array")
		}
		rgn, ptr, ln, cp, et = av.Rgn, av.Off, I64(av.N), I64(av.N), u.Elem()
	case *types.Pointer:
		at, ok := u.Elem().Underlying().(*types.Array)
		if !ok {
			unsup("slicing pointer to %s", u.Elem())
		}
		pv := x.expr(s, fr, n.X).(*PtrV)
		x.nilCheck(s, fr, pv.Rgn, n.Pos(), exprText(x.w.Fset, n))
		rgn, ptr, ln, cp, et = pv.Rgn, pv.Off, I64(at.Len()), I64(at.Len()), at.Elem()
	case *types.Basic:
		isStr = true
		sv := x.expr(s, fr, n.X).(*Scalar)
		ptr, ln, cp = sv.T, x.strlen(sv.T), x.strlen(sv.T)
	default:
		unsup("slice of %s", xt)
	}
	idx := func(e ast.Expr, def Term) Term {
		if e == nil {
			return def
		}
		v := x.expr(s, fr, e).(*Scalar)
		signed := isSigned(fr.info.TypeOf(e))
		if b, ok := fr.info.TypeOf(e).Underlying().(*types.Basic); ok && b.Info()&types.IsUntyped != 0 {
			signed = true
		}
		return x.ctx.Share(Resize(v.T, 64, signed))
	}
	lo := idx(n.Low, I64(0))
	hi := idx(n.High, ln)
	text := exprText(x.w.Fset, n)
	if n.Slice3 {
		mx := idx(n.Max, cp)
		x.boundsCheck(s, fr, mx, cp, n.Pos(), "slice", text)
		x.boundsCheck(s, fr, hi, mx, n.Pos(), "slice", text)
		x.boundsCheck(s, fr, lo, hi, n.Pos(), "slice", text)
		return &SliceV{Rgn: rgn, Off: x.ctx.Share(Add64(ptr, lo)), Len: x.ctx.Share(Sub64(hi, lo)), Cap: x.ctx.Share(Sub64(mx, lo))}
	}
	x.boundsCheck(s, fr, hi, cp, n.Pos(), "slice", text)
	x.boundsCheck(s, fr, lo, hi, n.Pos(), "slice", text)
	if isStr {
		r := x.ctx.UF("str$sub", SStr, ptr, lo, hi)
		s.assume(Eq(x.strlen(r), Sub64(hi, lo)))
		return &Scalar{T: r}
	}
	_ = et
	return &SliceV{Rgn: rgn, Off: x.ctx.Share(Add64(ptr, lo)), Len: x.ctx.Share(Sub64(hi, lo)), Cap: x.ctx.Share(Sub64(cp, lo))}
}

func (x *Exec) unary(s *State, fr *Frame, n *ast.UnaryExpr) Value {
	switch n.Op {
	case token.AND:
		// &T{...}
		if cl, ok := ast.Unparen(n.X).(*ast.CompositeLit); ok {
			t := fr.info.TypeOf(cl)
			v := x.compositeLit(s, fr, cl)
			rgn := x.newRegion(s, memName(t), "alloc")
			x.store(s, memName(t), t, rgn, I64(0), v)
			return &PtrV{Rgn: rgn, Off: I64(0)}
		}
		loc := x.lvalue(s, fr, n.X)
		switch l := loc.(type) {
		case *heapLoc:
			if l.prov != "" {
				unsup("& of cast location")
			}
			t := fr.info.TypeOf(n.X)
			if at, ok := t.Underlying().(*types.Array); ok {
				// &arr: pointer to array = address of first element in element memory
				return &PtrV{Rgn: x.embRgn(s, l.prefix, at, l.rgn, l.off), Off: I64(0), Prov: memName(at.Elem())}
			}
			p := l.prefix
			if p == memName(t) {
				p = ""
			}
			if l.prefix == "uint8" {
				p = "uint8"
			}
			return &PtrV{Rgn: l.rgn, Off: l.off, Prov: p}
		case *varLoc:
			// &local of array type: arrays are references
			if len(l.path) == 0 {
				if av, ok := x.readVar(s, l.obj).(*ArrayRef); ok {
					at := l.obj.Type().Underlying().(*types.Array)
					return &PtrV{Rgn: av.Rgn, Off: av.Off, Prov: memName(at.Elem())}
				}
			}
			unsup("address of non-escaping variable %s (escape analysis missed it)", l.obj.Name())
		}
		unsup("address of %s", exprText(x.w.Fset, n.X))
	case token.NOT:
		return &Scalar{T: Not(x.cond(s, fr, n.X))}
	case token.SUB:
		v := x.expr(s, fr, n.X).(*Scalar)
		if !v.T.Sort.IsBV() {
			x.ctx.sorts["Float"] = true
			return &Scalar{T: x.ctx.Fresh("float", "Float")}
		}
		return &Scalar{T: BVNeg(v.T)}
	case token.ADD:
		return x.expr(s, fr, n.X)
	case token.XOR:
		v := x.expr(s, fr, n.X).(*Scalar)
		return &Scalar{T: BVNot(v.T)}
	case token.ARROW:
		x.expr(s, fr, n.X)
		x.note("abstracted", "channel receive yields an unknown value")
		t := fr.info.TypeOf(n)
		v := x.fresh(s, t, "recv")
		x.assumeWF(s, t, v)
		return v
	}
	unsup("unary %s", n.Op)
	return nil
}

func provOf(prefix string) string {
	if prefix == "uint8" {
		return "uint8"
	}
	return ""
}

func (x *Exec) binary(s *State, fr *Frame, n *ast.BinaryExpr) Value {
	if n.Op == token.LAND || n.Op == token.LOR {
		a := x.cond(s, fr, n.X)
		if a.IsC {
			if (n.Op == token.LAND) == (a.C == 0) {
				return &Scalar{T: a}
			}
			return &Scalar{T: x.cond(s, fr, n.Y)}
		}
		sb := s.fork()
		if n.Op == token.LAND {
			sb.assume(a)
		} else {
			sb.assume(Not(a))
		}
		bnp, bnf := len(sb.pc), len(sb.facts)
		b := x.cond(sb, fr, n.Y)
		if x.spec > 0 {
			g := a
			if n.Op == token.LOR {
				g = Not(a)
			}
			x.adopt(s, sb, bnp, bnf, &g, nil)
		}
		if x.spec == 0 && stateChanged(s, sb) {
			// the right operand had side effects: merge them back conditionally
			rest := s.fork()
			if n.Op == token.LAND {
				rest.assume(Not(a))
			} else {
				rest.assume(a)
			}
			m := x.merge(sb, rest)
			*s = *m
		}
		if n.Op == token.LAND {
			return &Scalar{T: x.recordParts(And(a, b), "and", a, b)}
		}
		return &Scalar{T: Or(a, b)}
	}
	l := x.expr(s, fr, n.X)
	r := x.expr(s, fr, n.Y)
	lt, rt := fr.info.TypeOf(n.X), fr.info.TypeOf(n.Y)
	return x.binop(s, fr, n.Op, l, r, lt, rt, n.Pos(), exprText(x.w.Fset, n))
}

func stateChanged(a, b *State) bool {
	if len(a.vars) != len(b.vars) || len(a.mem) != len(b.mem) || a.memEpoch != b.memEpoch {
		return true
	}
	for k, v := range a.vars {
		if b.vars[k] != v {
			return true
		}
	}
	for k, v := range a.mem {
		if b.mem[k].S != v.S {
			return true
		}
	}
	return false
}

func (x *Exec) binop(s *State, fr *Frame, op token.Token, l, r Value, lt, rt types.Type, pos token.Pos, text string) Value {
	switch op {
	case token.EQL, token.NEQ:
		t := lt
		if b, ok := lt.Underlying().(*types.Basic); ok && b.Kind() == types.UntypedNil {
			t = rt
		}
		var eq Term
		if isNilType(lt) && !isNilType(rt) {
			l = x.zero(s, rt)
			lt = rt
			t = rt
		} else if isNilType(rt) && !isNilType(lt) {
			r = x.zero(s, lt)
			rt = lt
		}
		ls, lok := l.(*SliceV)
		rs, rok := r.(*SliceV)
		lp, lpok := l.(*PtrV)
		rp, rpok := r.(*PtrV)
		switch {
		case lpok && rpok && rp.Rgn.IsC && rp.Rgn.C == 0:
			eq = Eq(lp.Rgn, I64(0)) // p == nil: the nil pointer is region 0
		case lpok && rpok && lp.Rgn.IsC && lp.Rgn.C == 0:
			eq = Eq(rp.Rgn, I64(0))
		case lok && rok:
			// slice compared with nil
			if isNilType(lt) {
				eq = Eq(rs.Rgn, I64(0))
			} else if isNilType(rt) {
				eq = Eq(ls.Rgn, I64(0))
			} else if rs.Rgn.IsC && rs.Rgn.C == 0 {
				eq = Eq(ls.Rgn, I64(0))
			} else if ls.Rgn.IsC && ls.Rgn.C == 0 {
				eq = Eq(rs.Rgn, I64(0))
			} else {
				unsup("slice comparison")
			}
		default:
			if _, isIface := t.Underlying().(*types.Interface); isIface {
				// interface vs concrete: convert the concrete side
				if _, li := lt.Underlying().(*types.Interface); !li {
					l = x.convertTo(s, fr, l, lt, t)
				}
			}
			if _, isIface := rt.Underlying().(*types.Interface); isIface && t != rt {
				if _, li := lt.Underlying().(*types.Interface); !li {
					l = x.convertTo(s, fr, l, lt, rt)
					t = rt
				}
			} else if _, ri := rt.Underlying().(*types.Interface); !ri {
				if _, li := t.Underlying().(*types.Interface); li {
					r = x.convertTo(s, fr, r, rt, t)
				}
			}
			if fl, ok := l.(*FuncV); ok {
				l = &Scalar{T: x.fnID(fl)}
			}
			if fr2, ok := r.(*FuncV); ok {
				r = &Scalar{T: x.fnID(fr2)}
			}
			eq = valueEq(x, t, l, r)
		}
		if op == token.NEQ {
			return &Scalar{T: Not(eq)}
		}
		return &Scalar{T: eq}
	}
	ls, ok1 := l.(*Scalar)
	rs, ok2 := r.(*Scalar)
	if !ok1 || !ok2 {
		unsup("binary %s on non-scalars", op)
	}
	if ls.T.Sort == SStr {
		switch op {
		case token.ADD:
			res := x.ctx.UF("str$cat", SStr, ls.T, rs.T)
			s.assume(Eq(x.strlen(res), Add64(x.strlen(ls.T), x.strlen(rs.T))))
			return &Scalar{T: res}
		case token.LSS, token.LEQ, token.GTR, token.GEQ:
			c := x.ctx.UF("str$cmp", SBV64, ls.T, rs.T)
			return &Scalar{T: cmpTerm(op, c, I64(0), true)}
		}
		unsup("string op %s", op)
	}
	if !ls.T.Sort.IsBV() {
		x.ctx.sorts["Float"] = true
		switch op {
		case token.LSS, token.LEQ, token.GTR, token.GEQ:
			return &Scalar{T: x.ctx.Fresh("fcmp", SBool)}
		}
		return &Scalar{T: x.ctx.Fresh("float", "Float")}
	}
	signed := isSigned(lt)
	if b, ok := lt.Underlying().(*types.Basic); ok && b.Info()&types.IsUntyped != 0 {
		signed = isSigned(rt)
		if b2, ok := rt.Underlying().(*types.Basic); ok && b2.Info()&types.IsUntyped != 0 {
			signed = true
		}
	}
	a, b := ls.T, rs.T
	switch op {
	case token.SHL, token.SHR:
		// shift count: any integer type; compare in 64 bits unsigned
		w := a.Sort.Width()
		cnt := Resize(b, 64, false)
		if isSigned(rt) {
			cnt = Resize(b, 64, true)
			// negative shift count panics
			if x.spec == 0 && !b.IsC {
				ok := Sle(I64(0), cnt)
				if x.top.NoPanic {
					x.oblige(s, "shift", "shift@"+shortText(text), ok, pos, text)
				}
				s.assume(ok)
			}
		}
		big := Not(Ult(cnt, I64(int64(w))))
		cw := Resize(cnt, w, false)
		if w > 64 {
			unsup("wide shift")
		}
		var res Term
		if op == token.SHL {
			res = Ite(big, BVLit(0, w), BVBin("bvshl", a, cw))
		} else if signed {
			res = Ite(big, BVBin("bvashr", a, BVLit(uint64(w-1), w)), BVBin("bvashr", a, cw))
		} else {
			res = Ite(big, BVLit(0, w), BVBin("bvlshr", a, cw))
		}
		return &Scalar{T: x.ctx.Share(res)}
	}
	if a.Sort != b.Sort {
		// untyped constant operand typed differently: bring to the typed side
		if a.IsC {
			a = Resize(a, b.Sort.Width(), true)
		} else if b.IsC {
			b = Resize(b, a.Sort.Width(), true)
		} else {
			unsup("operand width mismatch in %s", text)
		}
	}
	switch op {
	case token.ADD, token.SUB, token.MUL:
		o := map[token.Token]string{token.ADD: "bvadd", token.SUB: "bvsub", token.MUL: "bvmul"}[op]
		res := BVBin(o, a, b)
		x.checkWrap(s, fr, o, a, b, res, lt, pos, text)
		out := &Scalar{T: x.ctx.Share(res)}
		// uintptr(p) + n and uintptr(p) - n keep the pointer they were made from, so that
		// unsafe.Pointer(uintptr(p) + n) is the pointer p advanced by n bytes
		switch {
		case op == token.ADD && ls.Ptr != nil && rs.Ptr == nil:
			out.Ptr = &PtrV{Rgn: ls.Ptr.Rgn, Off: x.ctx.Share(Add64(ls.Ptr.Off, b)), Prov: ls.Ptr.Prov}
		case op == token.ADD && rs.Ptr != nil && ls.Ptr == nil:
			out.Ptr = &PtrV{Rgn: rs.Ptr.Rgn, Off: x.ctx.Share(Add64(rs.Ptr.Off, a)), Prov: rs.Ptr.Prov}
		case op == token.SUB && ls.Ptr != nil && rs.Ptr == nil:
			out.Ptr = &PtrV{Rgn: ls.Ptr.Rgn, Off: x.ctx.Share(Sub64(ls.Ptr.Off, b)), Prov: ls.Ptr.Prov}
		}
		return out
	case token.QUO, token.REM:
		if x.spec == 0 {
			nz := Ne(b, BVLit(0, b.Sort.Width()))
			if x.top.NoPanic {
				x.oblige(s, "div", "div@"+shortText(text), nz, pos, text)
			}
			s.assume(nz)
		}
		var o string
		switch {
		case op == token.QUO && signed:
			o = "bvsdiv"
		case op == token.QUO:
			o = "bvudiv"
		case signed:
			o = "bvsrem"
		default:
			o = "bvurem"
		}
		return &Scalar{T: x.ctx.Share(BVBin(o, a, b))}
	case token.AND:
		return &Scalar{T: x.ctx.Share(BVBin("bvand", a, b))}
	case token.OR:
		return &Scalar{T: x.ctx.Share(BVBin("bvor", a, b))}
	case token.XOR:
		return &Scalar{T: x.ctx.Share(BVBin("bvxor", a, b))}
	case token.AND_NOT:
		return &Scalar{T: x.ctx.Share(BVBin("bvand", a, BVNot(b)))}
	case token.LSS, token.LEQ, token.GTR, token.GEQ:
		return &Scalar{T: cmpTerm(op, a, b, signed)}
	}
	unsup("binary operator %s", op)
	return nil
}

func isNilType(t types.Type) bool {
	b, ok := t.Underlying().(*types.Basic)
	return ok && b.Kind() == types.UntypedNil
}

func cmpTerm(op token.Token, a, b Term, signed bool) Term {
	var o string
	switch op {
	case token.LSS:
		o = "lt"
	case token.LEQ:
		o = "le"
	case token.GTR:
		o = "gt"
	case token.GEQ:
		o = "ge"
	}
	if signed {
		return BVCmp("bvs"+o, a, b)
	}
	return BVCmp("bvu"+o, a, b)
}

// checkWrap emits a no-overflow obligation for signed arithmetic under nowrap.
func (x *Exec) checkWrap(s *State, fr *Frame, op string, a, b, res Term, t types.Type, pos token.Pos, text string) {
	if x.spec > 0 || !x.top.NoWrap || !fr.isTopBody() {
		return
	}
	if !isInteger(t) || !isSigned(t) {
		// unsigned wrap-around is defined behaviour that code relies on (hashes, checksums)
		return
	}
	w := a.Sort.Width()
	signed := isSigned(t)
	var ok Term
	ext := func(v Term) Term { return Resize(v, 2*w, signed) }
	if w > 32 && op == "bvmul" {
		// 128-bit products are expensive; use the solver's overflow predicates where cheap
		if signed {
			ok = Term{S: fmt.Sprintf("(not (bvsmul_noovfl_neg %s %s))", a.S, b.S), Sort: SBool}
			unsup("nowrap on 64-bit signed multiplication")
		}
		hi := Term{S: fmt.Sprintf("((_ extract %d %d) (bvmul %s %s))", 2*w-1, w, ext(a).S, ext(b).S), Sort: BV(w)}
		ok = Eq(hi, BVLit(0, w))
	} else {
		wide := BVBin(op, ext(a), ext(b))
		ok = Eq(wide, ext(res))
	}
	if !signed {
		// unsigned wrap-around is defined behaviour that code relies on (hashes); only checked for
		// index/size-like types, i.e. when the operand type is uint/uint64/uintptr and op is add/mul
		return
	}
	x.oblige(s, "nowrap", "nowrap@"+shortText(text), ok, pos, text)
}

func (fr *Frame) isTopBody() bool {
	return fr.contract != nil && fr.isTop
}

// convertTo converts a value between types (explicit or implicit conversion).
func (x *Exec) convertTo(s *State, fr *Frame, v Value, from, to types.Type) Value {
	if from == nil || to == nil || types.Identical(from, to) {
		return v
	}
	if _, ok := to.Underlying().(*types.Interface); ok {
		if _, ok := from.Underlying().(*types.Interface); ok {
			sc, ok := v.(*Scalar)
			if ok && isErrorType(to) && sc.T.Sort == SIface {
				return &Scalar{T: x.ctx.UF("iface$toerr", SErr, sc.T)}
			}
			if ok && !isErrorType(to) && sc.T.Sort == SErr {
				return &Scalar{T: x.ctx.UF("err$toiface", SIface, sc.T)}
			}
			return v
		}
		if isNilType(from) {
			return x.zero(s, to)
		}
		if isErrorType(to) {
			e := x.ctx.Fresh("err$conc", SErr)
			s.assume(Ne(e, x.ctx.Const("err$nil", SErr)))
			return &Scalar{T: e}
		}
		e := x.ctx.Fresh("iface$conc", SIface)
		s.assume(Ne(e, x.ctx.Const("iface$nil", SIface)))
		return &Scalar{T: e}
	}
	if isNilType(from) {
		return x.zero(s, to)
	}
	return v
}

// convert implements an explicit conversion T(x).
func (x *Exec) convert(s *State, fr *Frame, v Value, from, to types.Type, pos token.Pos, text string) Value {
	if types.Identical(from.Underlying(), to.Underlying()) {
		return v
	}
	fb, fok := from.Underlying().(*types.Basic)
	tb, tok := to.Underlying().(*types.Basic)
	if fok && tok {
		switch {
		case fb.Info()&types.IsInteger != 0 && tb.Info()&types.IsInteger != 0:
			sc := v.(*Scalar)
			fs := isSigned(from)
			if fb.Info()&types.IsUntyped != 0 {
				fs = true
			}
			w2 := x.width(to)
			res := Resize(sc.T, w2, fs)
			if x.top.NoWrap && x.spec == 0 && fr.isTopBody() && !sc.T.IsC {
				w1 := sc.T.Sort.Width()
				ts := isSigned(to)
				var ok Term = True
				switch {
				case w2 > w1:
					if fs && !ts {
						ok = Sle(BVLit(0, w1), sc.T)
					}
				case w2 == w1:
					if fs != ts {
						ok = Sle(BVLit(0, w1), sc.T)
					}
				default:
					ok = Eq(Resize(res, w1, ts), sc.T)
				}
				if !(ok.IsC && ok.C != 0) {
					x.oblige(s, "nowrap", "nowrap@"+shortText(text), ok, pos, text)
				}
			}
			return &Scalar{T: x.ctx.Share(res)}
		case fb.Kind() == types.UnsafePointer && tb.Kind() == types.Uintptr:
			// The address of a byte: an unknown base address of its region plus the offset
			// (only differences of addresses inside one region are determined).
			if p, ok := v.(*PtrV); ok && p.Prov == "uint8" {
				return &Scalar{T: x.ctx.Share(Add64(x.ctx.UF("rgn$base", SBV64, p.Rgn), p.Off)), Ptr: p}
			}
			// Any other pointer: its address is an unknown function of the pointer.
			if p, ok := v.(*PtrV); ok {
				return &Scalar{T: x.ctx.Share(x.ctx.UF("ptr$addr", SBV64, p.Rgn, p.Off))}
			}
			unsup("conversion of a non-pointer unsafe.Pointer value to uintptr")
		case fb.Kind() == types.Uintptr && tb.Kind() == types.UnsafePointer:
			// only the pattern unsafe.Pointer(uintptr(p) ± n) of the unsafe rules: the integer
			// still carries the byte pointer it was computed from
			if sc, ok := v.(*Scalar); ok && sc.Ptr != nil {
				return sc.Ptr
			}
			unsup("conversion of an integer of unknown origin to unsafe.Pointer")
		case fb.Info()&types.IsString != 0 && tb.Info()&types.IsString != 0:
			return v
		case tb.Info()&types.IsFloat != 0 || fb.Info()&types.IsFloat != 0:
			x.ctx.sorts["Float"] = true
			if tb.Info()&types.IsFloat != 0 {
				return &Scalar{T: x.ctx.Fresh("float", "Float")}
			}
			x.note("abstracted", "float to integer conversion yields an unknown value")
			return &Scalar{T: x.ctx.Fresh("ftoi", BV(x.width(to)))}
		}
	}
	// pointer <-> unsafe.Pointer
	if _, ok := to.Underlying().(*types.Pointer); ok {
		if pv, ok := v.(*PtrV); ok {
			return pv
		}
	}
	if tok && tb.Kind() == types.UnsafePointer {
		if pv, ok := v.(*PtrV); ok {
			p := pv.Prov
			if p == "" {
				if pt, ok := from.Underlying().(*types.Pointer); ok {
					p = memName(pt.Elem())
				}
			}
			return &PtrV{Rgn: pv.Rgn, Off: pv.Off, Prov: p}
		}
	}
	// string <-> []byte
	if tok && tb.Info()&types.IsString != 0 {
		if isByteSlice(from) {
			switch bv := v.(type) {
			case *SliceV:
				str := x.ctx.UF("str$of", SStr, x.ctx.Share(x.inner(s, "uint8", BV(8), bv.Rgn)), bv.Off, bv.Len)
				s.assume(Eq(x.strlen(str), bv.Len))
				return &Scalar{T: str}
			case *Scalar:
				str := x.ctx.UF("str$ofbytes", SStr, bv.T)
				s.assume(Eq(x.strlen(str), x.bytesLen(bv.T)))
				return &Scalar{T: str}
			}
		}
		if isInteger(from) {
			return &Scalar{T: x.ctx.Fresh("str$rune", SStr)}
		}
	}
	if isByteSlice(to) && fok && fb.Info()&types.IsString != 0 {
		sc := v.(*Scalar)
		if x.opaque {
			b := x.ctx.UF("bytes$ofstr", SBytes, sc.T)
			s.assume(Eq(x.bytesLen(b), x.strlen(sc.T)))
			return &Scalar{T: b}
		}
		n := x.strlen(sc.T)
		rgn := x.newRegion(s, "uint8", "alloc")
		x.havocRange(s, types.Typ[types.Uint8], rgn, I64(0), n)
		return &SliceV{Rgn: rgn, Off: I64(0), Len: n, Cap: n}
	}
	// slice to array pointer / array
	if pt, ok := to.Underlying().(*types.Pointer); ok {
		if at, ok := pt.Elem().Underlying().(*types.Array); ok {
			if sv, ok := v.(*SliceV); ok {
				x.boundsCheck(s, fr, I64(at.Len()), sv.Len, pos, "slice", text)
				return &PtrV{Rgn: sv.Rgn, Off: sv.Off, Prov: memName(at.Elem())}
			}
		}
	}
	if types.ConvertibleTo(from, to) {
		// same underlying structure modulo names/tags
		return v
	}
	unsup("conversion from %s to %s", from, to)
	return nil
}
