package main

import (
	"crypto/sha256"
	"fmt"
	"go/ast"
	"go/token"
	"go/types"
	"os"
	"sort"
	"strings"
)

type frameSpec struct {
	// memories (by name) the function may write and, per memory, the allowed addresses
	allowed map[string][]addrRange
	any     bool
}

type addrRange struct {
	rgn  Term
	off  Term
	size Term // 1 for single cells
}

// FuncResult is what verifying one contract block produced.
// runInfo is what the replay generator needs to know about the symbolic inputs
// of the run an obligation belongs to.
type runInfo struct {
	entry *State
	recv  Value
	args  []Value
	sig   *types.Signature
	x     *Exec
}

type FuncResult struct {
	Contract   *Contract
	Name       string
	Obls       []*Obligation
	Errs       []string
	Abstracted []string
	Inlined    []string
	Trusted    []string
	Assumed    []string
	SrcHash    string
	File       string
	Loops      int
	Ctx        *Ctx
}

func (x *Exec) noteWrite(s *State, mem string, rgn, off Term) {
	if x.frameSet == nil || x.spec > 0 {
		return
	}
	x.frameObl(s, mem, rgn, off, I64(1))
}

func (x *Exec) noteWriteRange(s *State, mem string, rgn, off, n Term) {
	if x.frameSet == nil || x.spec > 0 {
		return
	}
	x.frameObl(s, mem, rgn, off, n)
}

func (x *Exec) noteWriteAll(s *State, why string) {
	if x.frameSet == nil || x.spec > 0 || x.noObl > 0 {
		return
	}
	x.oblige(s, "frame", "frame@everything", False, token.NoPos, "assigns clause violated: "+why)
}

func (x *Exec) frameObl(s *State, mem string, rgn, base, n Term) {
	if x.noObl > 0 {
		return
	}
	if n.IsC && n.C == 0 {
		return
	}
	if rgn.IsC && rgn.C >= firstAlloc {
		return // a region allocated by this function
	}
	// regions allocated during the call are always writable
	ok := []Term{Ule(BVLit(firstAlloc, 64), rgn)}
	for _, ar := range x.frameSet.allowed[mem] {
		ok = append(ok, And(Eq(rgn, ar.rgn), Ule(ar.off, base), Ule(Add64(base, n), Add64(ar.off, ar.size))))
	}
	x.oblige(s, "frame", "frame@"+mem, Or(append(ok, Eq(n, I64(0)))...), token.NoPos, "write to "+mem+" stays within the assigns clause")
}

func (x *Exec) buildFrame(s *State, fr *Frame, c *Contract) {
	if len(c.Assigns) == 0 && !c.Block.Has("pure") {
		return
	}
	fs := &frameSpec{allowed: map[string][]addrRange{}}
	x.noObl++
	defer func() { x.noObl-- }()
	for _, a := range c.Assigns {
		t := fr.info.TypeOf(a.Expr)
		if st, ok := t.Underlying().(*types.Slice); ok && strings.HasSuffix(a.Text, "[*]") && !(x.opaque && isByteSlice(t)) {
			sv := x.expr(s.fork(), fr, a.Expr).(*SliceV)
			for _, l := range x.leaves(st.Elem()) {
				fs.allowed[memName(st.Elem())+l.path] = append(fs.allowed[memName(st.Elem())+l.path], addrRange{sv.Rgn, sv.Off, sv.Cap})
			}
			continue
		}
		if at, ok := t.Underlying().(*types.Array); ok {
			av := x.expr(s.fork(), fr, a.Expr).(*ArrayRef)
			for _, l := range x.leaves(at.Elem()) {
				fs.allowed[memName(at.Elem())+l.path] = append(fs.allowed[memName(at.Elem())+l.path], addrRange{av.Rgn, av.Off, I64(av.N)})
			}
			continue
		}
		loc := x.lvalue(s.fork(), fr, a.Expr)
		switch l := loc.(type) {
		case *heapLoc:
			for _, lf := range x.leaves(t) {
				fs.allowed[l.prefix+lf.path] = append(fs.allowed[l.prefix+lf.path], addrRange{l.rgn, l.off, I64(1)})
			}
		case *varLoc:
			// local/parameter variable: always assignable
		default:
			x.errs = append(x.errs, "assigns entry is not a location: "+a.Text)
		}
	}
	x.frameSet = fs
}

// Verify generates the obligations of one contract block.
func Verify(w *World, c *Contract) (res *FuncResult) {
	res = &FuncResult{Contract: c, Name: funcDisplayName(c)}
	if len(c.Errs) > 0 {
		res.Errs = append(res.Errs, c.Errs...)
		return res
	}
	x := NewExec(w, c)
	res.Ctx = x.ctx
	res.Loops = len(c.Loops)
	pos := w.Fset.Position(c.Body.Pos())
	res.File = pos.Filename
	res.SrcHash = srcHash(w, c)
	defer func() {
		if r := recover(); r != nil {
			if u, ok := r.(unsupported); ok {
				res.Errs = append(res.Errs, "left-subset: "+u.msg)
			} else {
				// a construct the executor mishandles: the function cannot be verified;
				// reported like any other construct outside the subset, not a crash
				res.Errs = append(res.Errs, fmt.Sprintf("left-subset: internal error of the VC generator: %v", r))
			}
		}
		res.Obls = x.obls
		res.Errs = append(res.Errs, x.errs...)
		res.Abstracted = keys(x.abstr)
		res.Inlined = keys(x.inlined)
		res.Trusted = keys(x.trusted)
		res.Assumed = keys(x.assumed)
	}()
	if c.Trusted {
		x.note("assumed", "contract of "+res.Name+" is trusted (not verified against its body)")
		return res
	}
	// Path splitting: selected nondeterministic choices (append grows or not) are
	// explored by re-executing the body once per combination of decisions, which
	// keeps the terms free of ite-laden address arithmetic.
	x.decisions = nil
	totalRet := 0
	for run := 0; run < 64; run++ {
		x.decisionPos = 0
		x.allocs = 0
		x.globals = map[types.Object]Value{}
		x.frameSet = nil
		x.stack = nil
		totalRet += verifyRun(w, c, x, res)
		if x.spec != 0 || x.noObl != 0 {
			// obligations may have been suppressed silently: never accept that
			x.errs = append(x.errs, fmt.Sprintf("left-subset: internal error of the VC generator: mode counters not restored (spec=%d, noObl=%d)", x.spec, x.noObl))
			x.spec, x.noObl = 0, 0
		}
		// next decision vector: drop trailing trues, flip the last false
		d := x.decisions[:min(len(x.decisions), x.decisionPos)]
		for len(d) > 0 && d[len(d)-1] {
			d = d[:len(d)-1]
		}
		if len(d) == 0 {
			break
		}
		d[len(d)-1] = true
		x.decisions = d
	}
	if totalRet == 0 && (len(c.Ensures) > 0) {
		x.errs = append(x.errs, "no reachable return in "+res.Name)
	}
	return res
}

// verifyRun executes the body once under the current decision vector and emits
// its obligations; it returns the number of reachable returns.
func verifyRun(w *World, c *Contract, x *Exec, res *FuncResult) int {
	s := newState()
	var sig *types.Signature
	var recvFL *ast.FieldList
	if c.Decl != nil {
		sig = c.Fn.Type().(*types.Signature)
		recvFL = c.Decl.Recv
	} else {
		sig = c.Pkg.TypesInfo.TypeOf(c.Lit).(*types.Signature)
	}
	fr := &Frame{fn: c.Fn, name: res.Name, contract: c, info: c.Pkg.TypesInfo, pkg: c.Pkg, sig: sig, isTop: true, callOrd: map[string]int{}}
	if c.Fn != nil {
		x.stack = append(x.stack, c.Fn)
	}
	// symbolic parameters
	var args []Value
	var slices []struct {
		v  *SliceV
		et types.Type
		nm string
	}
	mk := func(v *types.Var, hint string) Value {
		val := x.fresh(s, v.Type(), hint)
		x.assumeWF(s, v.Type(), val)
		x.assumePreexisting(s, v.Type(), val)
		x.collectSlices(v.Type(), val, hint, &slices)
		return val
	}
	var recv Value
	if sig.Recv() != nil {
		recv = mk(sig.Recv(), sig.Recv().Name())
		if _, isPtr := sig.Recv().Type().Underlying().(*types.Pointer); isPtr {
			s.assume(Ne(recv.(*PtrV).Rgn, I64(0)))
			x.note("assumed", "receiver of "+res.Name+" is non-nil")
		}
	}
	for i := 0; i < sig.Params().Len(); i++ {
		p := sig.Params().At(i)
		args = append(args, mk(p, p.Name()))
	}
	// distinct slice parameters do not overlap
	for i := range slices {
		a := slices[i]
		x.addRegionNoAssume(s, region{mem: memName(a.et), rgn: a.v.Rgn, tag: "param:" + a.nm})
		for j := 0; j < i; j++ {
			b := slices[j]
			if memName(a.et) != memName(b.et) || x.mayAlias(c, a.nm, b.nm) {
				continue
			}
			s.assume(Or(Eq(a.v.Cap, I64(0)), Eq(b.v.Cap, I64(0)), Ne(a.v.Rgn, b.v.Rgn)))
			x.note("assumed", fmt.Sprintf("non-aliasing: slice parameters %s and %s of %s do not overlap", b.nm, a.nm, res.Name))
		}
	}
	if c.Lit != nil {
		// free variables of the literal: unknown values on first read (handled by global())
		x.captureFree(s, fr, c)
	}
	x.bindParams(s, fr, recvFL, c.FuncTyp, recv, args)
	x.initGhost(s, fr, c)
	for _, nn := range c.NonNil {
		v := x.specExpr(s, fr, nn.Expr)
		if p, ok := v.(*PtrV); ok {
			s.assume(Ne(p.Rgn, I64(0)))
		}
	}
	for _, r := range c.Requires {
		s.assume(x.ctx.Share(x.specCond(s, fr, r.Expr)))
	}
	for _, r := range c.Assumes {
		s.assume(x.ctx.Share(x.specCond(s, fr, r.Expr)))
		x.note("assumed", "assume in contract of "+res.Name+": "+r.Text)
	}
	if len(c.Requires) > 0 {
		x.cover(s, "cover/requires", True, "preconditions are satisfiable")
	}
	x.entry = s.fork()
	x.curRun = &runInfo{entry: x.entry, recv: recv, args: args, sig: sig, x: x}
	x.buildFrame(s, fr, c)
	x.runBody(s, fr, c.Body, c.Body.Pos())
	// postconditions at every return
	nret := 0
	for _, r := range fr.rets {
		if r.s.infeasible() {
			continue
		}
		nret++
		rs := r.s
		// in postconditions, parameter names denote their values on entry
		for obj, v := range x.entry.vars {
			if _, isHeap := v.(*heapVar); isHeap {
				continue
			}
			if vr, ok := obj.(*types.Var); ok && x.isParam(fr, vr) {
				rs.vars[obj] = v
			}
		}
		for k, rv := range c.Results {
			if k < len(r.vals) {
				rs.vars[rv] = r.vals[k]
			}
		}
		for _, br := range c.BefRet {
			cond := True
			if br.Dir.Ret != "" {
				var errT *Term
				for k := range r.vals {
					if sc, ok := r.vals[k].(*Scalar); ok && sc.T.Sort == SErr {
						t := sc.T
						errT = &t
					}
				}
				if errT == nil {
					x.errs = append(x.errs, "before return "+br.Dir.Ret+": function has no error result")
					continue
				}
				cond = Eq(*errT, x.errNil())
				if br.Dir.Ret == "err" {
					cond = Not(cond)
				}
			}
			// an assertion that mentions a local variable which is declared after this
			// return statement says nothing about this return: it is skipped here (and the
			// evidence says so)
			var g Term
			skipped := false
			func() {
				spec0, noObl0 := x.spec, x.noObl
				defer func() {
					if rec := recover(); rec != nil {
						u, ok := rec.(unsupported)
						if !ok || !strings.Contains(u.msg, "is not in scope of the symbolic state") || !declaredAfter(w, c, br.Expr, r.pos) {
							panic(rec)
						}
						x.spec, x.noObl = spec0, noObl0
						skipped = true
					}
				}()
				g = x.specCond(rs, fr, br.Expr)
			}()
			if skipped {
				x.note("assumed", fmt.Sprintf("before-return assertion #%d of %s does not apply to the return at %s (it mentions variables declared later)", br.Dir.Ord, res.Name, w.Fset.Position(r.pos)))
				continue
			}
			x.oblige(rs, "return-order", fmt.Sprintf("return.order#%d", br.Dir.Ord), Implies(cond, g), r.pos, "before return "+br.Dir.Ret+": "+br.Text)
		}
		for i := range c.Ensures {
			e := c.Ensures[i]
			g := x.specCond(rs, fr, e.Expr)
			x.curCExpr = &c.Ensures[i]
			x.oblige(rs, "ensures", fmt.Sprintf("ensures#%d", e.Dir.Ord), g, r.pos, e.Text)
			x.curCExpr = nil
			if c.Block.Has("stepwise") && len(e.Dir.Only) == 0 {
				// "stepwise": a clause, once it has its own obligation, may be used to prove
				// the clauses after it (a cut; if it fails, the check fails on it)
				rs.assume(g)
			}
		}
		x.cover(rs, "canary/return", True, "return is reachable")
	}
	return nret
}

func (x *Exec) isParam(fr *Frame, v *types.Var) bool {
	sig := fr.sig
	if sig.Recv() == v {
		return true
	}
	for i := 0; i < sig.Params().Len(); i++ {
		if sig.Params().At(i) == v {
			return true
		}
	}
	return false
}

func keys(m map[string]bool) []string {
	var out []string
	for k := range m {
		out = append(out, k)
	}
	sort.Strings(out)
	return out
}

func (x *Exec) mayAlias(c *Contract, a, b string) bool {
	for _, d := range c.Block.Of("mayalias") {
		f := strings.FieldsFunc(d.Expr, func(r rune) bool { return r == ',' || r == ' ' || r == '(' || r == ')' })
		if len(f) == 2 && ((f[0] == a && f[1] == b) || (f[0] == b && f[1] == a)) {
			return true
		}
	}
	return false
}

func (x *Exec) addRegionNoAssume(s *State, r region) {
	s.regions = append(s.regions, r)
}

func (x *Exec) collectSlices(t types.Type, v Value, name string, out *[]struct {
	v  *SliceV
	et types.Type
	nm string
}) {
	switch u := t.Underlying().(type) {
	case *types.Slice:
		if sv, ok := v.(*SliceV); ok {
			*out = append(*out, struct {
				v  *SliceV
				et types.Type
				nm string
			}{sv, u.Elem(), name})
		}
	case *types.Struct:
		if sv, ok := v.(*StructV); ok {
			for i := 0; i < u.NumFields(); i++ {
				x.collectSlices(u.Field(i).Type(), sv.F[i], name+"."+u.Field(i).Name(), out)
			}
		}
	}
}

// captureFree binds the free variables of a function literal verified on its own
// to unknown values.
func (x *Exec) captureFree(s *State, fr *Frame, c *Contract) {
	info := c.Pkg.TypesInfo
	ast.Inspect(c.Lit.Body, func(n ast.Node) bool {
		id, ok := n.(*ast.Ident)
		if !ok {
			return true
		}
		v, ok := info.Uses[id].(*types.Var)
		if !ok || v.IsField() {
			return true
		}
		if v.Pkg() != nil && v.Parent() == v.Pkg().Scope() {
			return true
		}
		if v.Pos() >= c.Lit.Pos() && v.Pos() <= c.Lit.End() {
			return true
		}
		if _, ok := s.vars[v]; ok {
			return true
		}
		func() {
			defer func() {
				if r := recover(); r != nil {
					if _, ok := r.(unsupported); !ok {
						panic(r)
					}
				}
			}()
			val := x.fresh(s, v.Type(), v.Name())
			x.assumeWF(s, v.Type(), val)
			x.assumePreexisting(s, v.Type(), val)
			if _, isPtr := v.Type().Underlying().(*types.Pointer); isPtr {
				// captured receivers/pointers of the enclosing method are assumed non-nil
				s.assume(Ne(val.(*PtrV).Rgn, I64(0)))
			}
			if x.escapes(fr, v) {
				rgn := x.ctx.Fresh("loc$"+v.Name(), SBV64)
				s.assume(Ne(rgn, I64(0)))
				s.assume(Ult(rgn, BVLit(firstAlloc, 64)))
				x.store(s, memName(v.Type()), v.Type(), rgn, I64(0), val)
				s.vars[v] = &heapVar{rgn: rgn}
			} else {
				s.vars[v] = val
			}
		}()
		return true
	})
}

func srcHash(w *World, c *Contract) string {
	start := w.Fset.Position(c.Body.Pos())
	end := w.Fset.Position(c.Body.End())
	data, err := os.ReadFile(start.Filename)
	if err != nil || end.Offset > len(data) {
		return ""
	}
	h := sha256.Sum256(data[start.Offset:end.Offset])
	return fmt.Sprintf("%x", h[:8])
}

// declaredAfter reports whether expression e mentions a local variable of the
// contract's function whose declaration comes after position pos.
func declaredAfter(w *World, c *Contract, e ast.Expr, pos token.Pos) bool {
	found := false
	ast.Inspect(e, func(n ast.Node) bool {
		id, ok := n.(*ast.Ident)
		if !ok {
			return true
		}
		if v, ok := c.Pkg.TypesInfo.Uses[id].(*types.Var); ok && !v.IsField() {
			if v.Pos() > pos && v.Pos() >= c.Body.Pos() && v.Pos() <= c.Body.End() {
				found = true
			}
		}
		return true
	})
	return found
}
